import json
def replay_file(path):
    d = json.load(open(path))
    print(json.dumps({k: d.get(k) for k in ("property", "obligation", "site", "verifier_message", "counterexample")}, indent=1))
    print(d.get("verifier_output") or "")
    return 0
