"""check driver:  ./check <ID> --tier quick|thorough

exit 0  property held on everything decided (known findings are printed as
        KNOWN-FINDING lines and do not affect the exit code)
exit 1  at least one obligation of the property fails that known_findings.json
        does not list  ->  `VIOLATION property=<id> replay=<path>` per obligation
exit 2  undecided (lost anchor, unsupported construct, rlimit, tool error, vacuous
        contract): never an alarm."""
import argparse, glob, hashlib, importlib.util, json, os, re, shutil, subprocess, sys, time
from concurrent.futures import ThreadPoolExecutor
from . import extract, verus, lex

VERIF = os.path.abspath(os.path.join(os.path.dirname(__file__), "..", ".."))
REPO = os.environ.get("VERIF_REPO", "/repo")
BUILD = os.environ.get("VERIF_BUILD_DIR", os.path.join(VERIF, "build"))


def load_units():
    units = {}
    for path in sorted(glob.glob(os.path.join(VERIF, "specs", "units", "*.py"))):
        name = os.path.basename(path)[:-3]
        if name.startswith("_"):
            continue
        spec = importlib.util.spec_from_file_location("vxunit_" + name, path)
        mod = importlib.util.module_from_spec(spec)
        spec.loader.exec_module(mod)
        for u in getattr(mod, "UNITS", [getattr(mod, "UNIT", None)]):
            if u:
                units[u["name"]] = u
    return units


def label_props(label):
    if label and ":" in label:
        return label.split(":", 1)[0].split(",")
    return []


def scan_assumptions(text):
    found = []
    for i, line in enumerate(text.split("\n"), 1):
        s = line.strip()
        if s.startswith("//"):
            continue
        for kw in ("external_body", "assume_specification", "admit(", "assume(", "external_type_specification", "#[verifier::external"):
            if kw in s:
                found.append((kw, i, lex.norm(s)[:160]))
    return found


def trusted_summary(text):
    """Names of trusted items, for evidence."""
    out = []
    lines = text.split("\n")
    for i, line in enumerate(lines):
        if "external_body" in line or "assume_specification" in line or "admit(" in line or "assume(" in line:
            ctx = " ".join(l.strip() for l in lines[i:i + 3])
            m = re.search(r"fn\s+(\w+)", ctx) or re.search(r"assume_specification.*?\[\s*([^\]]+)\]", ctx) or re.search(r"(struct|enum)\s+(\w+)", ctx)
            if m:
                out.append(lex.norm(m.group(0))[:100])
            else:
                out.append(lex.norm(line)[:100])
    seen, res = set(), []
    for o in out:
        if o not in seen:
            seen.add(o); res.append(o)
    return res


def run_verus_unit(unit, tier, seed):
    """-> dict(status, failures, undecided, stats, obligations, ...)"""
    os.makedirs(BUILD, exist_ok=True)
    res = dict(unit=unit["name"], engine="verus", failures=[], undecided=[], labels=[], fns=[],
               edits=[], trusted=[], smt={}, wall=0.0, obligations=0)
    t0 = time.time()
    try:
        built = extract.build_unit(REPO, VERIF, unit)
    except extract.ExtractError as e:
        res["undecided"].append("extract: %s" % e)
        return res
    except lex.LexError as e:
        res["undecided"].append("lex: %s" % e)
        return res
    path = os.path.join(BUILD, unit["name"] + ".rs")
    open(path, "w").write(built["text"])
    json.dump(built["edits"], open(os.path.join(BUILD, unit["name"] + ".edits.json"), "w"), indent=1)
    fn_names = [f["name"] for f in built["fns"] if not f.get("is_type")]
    res["fns"] = [dict(name=f["name"], where=f["where"], source_lines=f["raw_lines"]) for f in built["fns"] if not f.get("is_type")]
    res["types"] = [dict(name=f["name"], where=f["where"]) for f in built["fns"] if f.get("is_type")]
    res["edits"] = built["edits"]
    res["labels"] = sorted(set(built["labels"].values()))
    res["trusted"] = trusted_summary(built["text"])
    res["path"] = path
    rlimit = unit.get("rlimit", 30)
    twin_text, twin_lines = extract.vacuity_twin(built)
    twin_path = os.path.join(BUILD, unit["name"] + "_vac.rs")
    open(twin_path, "w").write(twin_text)

    with ThreadPoolExecutor(2) as ex:
        fut_main = ex.submit(verus.run, path, rlimit, seed if seed else None, 12)
        fut_twin = ex.submit(verus.run, twin_path, rlimit, None, 4)
        r = fut_main.result(); r["path"] = path
        rt = fut_twin.result(); rt["path"] = twin_path
    fn_locs = [(f["name"], f["head"]) for f in built["fns"] if not f.get("is_type")]
    failures, undecided = verus.classify(r, built["text"], built["labels"], fn_locs)
    # a query that runs out of its resource limit is retried with a much larger one (other seeds) before it counts as undecided
    for boost, s in ((4, 3),):
        if not any("resource limit" in u.lower() or "rlimit" in u.lower() for u in undecided):
            break
        r = verus.run(path, rlimit * boost, (seed or 0) + s, 16)
        r["path"] = path
        failures, undecided = verus.classify(r, built["text"], built["labels"], fn_locs)
        res["rlimit_retries"] = res.get("rlimit_retries", 0) + 1
    res["cmd"] = r["cmd"]
    res["smt"] = verus.smt_summary(r["stats"])
    # stability: a failure only counts if it also fails on two more seeds at doubled rlimit
    if failures and not undecided:
        keys = lambda fs: set((f["label"], f["site"]) for f in fs)
        stable = keys(failures)
        for s in (7, 31):
            r2 = verus.run(path, rlimit * 2, (seed or 0) + s, 16)
            r2["path"] = path
            f2, u2 = verus.classify(r2, built["text"], built["labels"], fn_locs)
            if u2:
                undecided += ["(re-run seed+%d) %s" % (s, x) for x in u2]
                break
            stable &= keys(f2)
        dropped = [f for f in failures if (f["label"], f["site"]) not in stable]
        if dropped:
            # the verifier proved these obligations under another solver seed: a proof is a proof whichever seed found it, so
            # they count as discharged; the sensitivity is recorded in the evidence (it marks a proof worth stabilising)
            res["seed_sensitive"] = ["%s %s" % (f["label"], f["site"]) for f in dropped]
        failures = [f for f in failures if (f["label"], f["site"]) in stable]
    # an unlabelled failure outside the extracted functions is a failure of one of *our* lemmas / model
    # functions: proof-engineering debt, i.e. undecided, never a violation of the property
    for f in failures:
        if not f.get("label") and f.get("fn") not in fn_names:
            undecided.append("model/lemma proof failed (not an obligation on /repo code): %s" % f["site"])
    failures = [f for f in failures if f.get("label") or f.get("fn") in fn_names]
    res["failures"] = failures
    res["undecided"] = undecided
    # vacuity: every extracted fn's entry assert(false) must fail
    tf, tu = verus.classify(rt, twin_text, {}, fn_names)
    # the twin only has to show that each entry assert(false) FAILS; a loop or lemma of the twin that runs out of its resource
    # limit afterwards says nothing about vacuity
    tu = [x for x in tu if "resource limit" not in x.lower() and "rlimit" not in x.lower()]
    failed_lines = set(f["line"] for f in tf if f["kind"] == "assertion_failed")
    if tu and not res["undecided"]:
        res["undecided"] += ["vacuity twin: " + x for x in tu]
    vac_ok = 0
    for ln, fname in twin_lines.items():
        if ln in failed_lines:
            vac_ok += 1
        elif not tu:
            res["undecided"].append("VACUOUS: entry of %s is unreachable under its requires/prelude (assert(false) verified)" % fname)
    res["vacuity_reachable_entries"] = vac_ok
    # obligation accounting (syntactic, see DESIGN 3.5): labelled clauses + one implicit-safety
    # obligation bundle per verified function as reported by Verus
    nlab = len(built["labels"])
    res["labelled_clauses"] = nlab
    res["obligations"] = nlab + len(fn_names)
    res["wall"] = time.time() - t0
    res["generated_lines"] = built["text"].count("\n")
    return res


def load_known():
    p = os.path.join(VERIF, "known_findings.json")
    if not os.path.exists(p):
        return []
    return json.load(open(p)).get("findings", [])


def match_known(known, prop, fail):
    for k in known:
        if k.get("status", "open") != "open":
            continue
        if k["property"] != prop:
            continue
        if k.get("label") and k["label"] != fail.get("label"):
            continue
        if k.get("site") and k["site"] != fail.get("site"):
            continue
        if k.get("engine") and k["engine"] != fail.get("engine", "verus"):
            continue
        if not k.get("label") and not k.get("site"):
            continue
        return k
    return None


def write_replay(prop, fail, unit_res, extra=None):
    rdir = os.environ.get("VERIF_REPLAY_DIR", os.path.join(VERIF, "replays"))
    os.makedirs(rdir, exist_ok=True)
    h = hashlib.sha1(("%s|%s|%s" % (prop, fail.get("label"), fail.get("site"))).encode()).hexdigest()[:10]
    p = os.path.join(rdir, "%s-%s.json" % (prop, h))
    doc = dict(property=prop, obligation=fail.get("label") or fail.get("site"), label=fail.get("label"),
               site=fail.get("site"), function=fail.get("fn"), unit=unit_res["unit"], engine=unit_res["engine"],
               verifier_message=fail.get("message"), verifier_output=fail.get("rendered"),
               generated_file=unit_res.get("path"), checker_cmd=unit_res.get("cmd"),
               source_functions=unit_res.get("fns"), counterexample=None)
    if extra:
        doc.update(extra)
    json.dump(doc, open(p, "w"), indent=1)
    return p


def main(argv=None):
    ap = argparse.ArgumentParser()
    ap.add_argument("prop")
    ap.add_argument("--tier", default=os.environ.get("VERIF_TIER", "quick"))
    ap.add_argument("--replay")
    ap.add_argument("--units")
    a = ap.parse_args(argv)
    seed = int(os.environ.get("VERIF_SEED", "0") or 0)
    prop = a.prop
    t0 = time.time()
    if a.replay:
        from . import replay
        return replay.replay_file(a.replay)
    units = load_units()
    mine = [u for u in units.values() if prop in u["props"]]
    if a.units:
        mine = [u for u in mine if u["name"] in a.units.split(",")]
    else:
        # units still under construction are never part of a registered check
        mine = [u for u in mine if not u.get("wip") or os.environ.get("VERIF_WIP")]
    if not mine:
        print("no units registered for %s" % prop)
        return 2
    from . import kani as kani_engine
    from . import native
    results = []
    for u in mine:
        eng = u.get("engine", "verus")
        if u.get("tier") == "thorough" and a.tier != "thorough":
            continue
        if eng == "verus":
            results.append(run_verus_unit(u, a.tier, seed))
        elif eng == "kani":
            results.append(kani_engine.run_kani_unit(u, a.tier, seed, REPO, VERIF, BUILD))
        elif eng == "native":
            results.append(native.run_native_unit(u, a.tier, seed, REPO, VERIF, BUILD, prop))
    known = load_known()
    violations, knowns, undecided = [], [], []
    obligations = discharged = 0
    for r in results:
        for u in r["undecided"]:
            undecided.append("%s: %s" % (r["unit"], u))
        my_labels = [l for l in r.get("labels", []) if prop in label_props(l)]
        # obligations attributed to this property: its labelled clauses + implicit bundle per fn
        implicit = prop in (units[r["unit"]].get("implicit_props") or units[r["unit"]]["props"])
        n_obl = len(my_labels) + (len(r.get("fns", [])) if implicit else 0) + r.get("extra_obligations", 0)
        failed_keys = set()
        for f in r["failures"]:
            f["engine"] = r["engine"]
            lp = label_props(f.get("label"))
            if f.get("label"):
                if prop not in lp:
                    continue
            elif not implicit:
                continue
            k = match_known(known, prop, f)
            key = (f.get("label"), f.get("site"))
            if key in failed_keys:
                continue
            failed_keys.add(key)
            if k:
                knowns.append((k, f, r))
            else:
                violations.append((f, r))
        obligations += n_obl
        discharged += max(0, n_obl - len(failed_keys))
    # native confirmations of known findings / scenario families
    for k, f, r in knowns:
        print("KNOWN-FINDING: property=%s %s [%s @ %s]" % (prop, k.get("what", ""), f.get("label") or "", f.get("site")))
    # known findings that are listed (open) for this property but whose obligation now passes
    stale = []
    hit = set(id(k) for k, _, _ in knowns)
    ran_units = set(r["unit"] for r in results)
    for k in known:
        if k["property"] == prop and k.get("status", "open") == "open" and id(k) not in hit \
                and (k.get("unit") in ran_units) and not undecided:
            stale.append(k)
    for k in stale:
        print("NOTE: known finding no longer reproduces (stale entry): %s %s" % (k.get("label"), k.get("what", "")))
    rc = 0
    replay_paths = []
    open_native_kf = any(k["property"] == prop and k.get("status", "open") == "open" for k in known) and prop in native.FAMILIES
    for f, r in violations:
        extra = None
        try:
            if os.environ.get("VERIF_NO_NATIVE"):
                extra = dict(counterexample=None, counterexample_search="not searched (VERIF_NO_NATIVE set)")
            elif open_native_kf:
                # the family of this property fails on its listed known finding by design: its history must not be passed off
                # as the failing input of a different obligation
                extra = dict(counterexample=None, counterexample_search="not searched: the scenario family of this property reproduces its listed known finding and cannot tell a new failure from it")
            else:
                extra = native.search_counterexample(prop, f, r, REPO, VERIF, BUILD)
        except Exception as e:  # replay search must never turn into an alarm by itself
            extra = dict(counterexample=None, counterexample_search_error=str(e))
        p = write_replay(prop, f, r, extra)
        replay_paths.append(p)
        suffix = "" if (extra and extra.get("counterexample")) else " no-failing-input-found"
        print("VIOLATION property=%s replay=%s obligation=%s%s" % (prop, p, f.get("label") or f.get("site"), suffix))
        rc = 1
    # The scenario family of the property runs against the real engine (a) when the verifier could not decide a unit (lost
    # anchor, unsupported construct): a history that really fails is a violation even then; (b) always in the thorough tier.
    # Properties with an open, natively replayed known finding are left out: their family reproduces that finding by design.
    native_note = None
    open_native = any(k["property"] == prop and k.get("status", "open") == "open" for k in known)
    if rc == 0 and not a.units and prop in native.FAMILIES and not open_native and (undecided or a.tier == "thorough") and not os.environ.get("VERIF_NO_NATIVE"):
        synthetic = dict(label=None, site="scenario family run natively (%s)" % ("verifier undecided" if undecided else "thorough tier"), fn=None,
                         message="native history check", rendered="\n".join(undecided))
        runit = dict(unit="native:" + prop, engine="native", path=None, cmd="tools/vx/native.py family", fns=[])
        try:
            extra = native.search_counterexample(prop, synthetic, runit, REPO, VERIF, BUILD)
        except Exception as e:
            extra = dict(counterexample=None, counterexample_search="native family could not run: %s" % e)
        native_note = extra.get("counterexample_search")
        if extra.get("counterexample"):
            pth = write_replay(prop, synthetic, runit, extra)
            violations.append((synthetic, runit))
            print("VIOLATION property=%s replay=%s obligation=history:%s" % (prop, pth, extra["counterexample"].get("scenario") or extra["counterexample"].get("failure", "")[:80]))
            rc = 1
        else:
            print("native: %s" % native_note)
    # thorough tier: an open finding that is replayed natively must still reproduce (otherwise the entry is stale: exit 2)
    if a.tier == "thorough" and not a.units and open_native and knowns and prop in native.FAMILIES:
        try:
            k0, f0, r0 = knowns[0]
            extra = native.search_counterexample(prop, f0, r0, REPO, VERIF, BUILD)
        except Exception as e:
            extra = dict(counterexample=None, counterexample_search="native family could not run: %s" % e)
        if extra.get("counterexample"):
            # a family that reports every failing scenario lets a NEW failure be told from the listed one: the finding names the
            # scenarios it covers (native_scenario_regex); anything else the family finds is a violation
            rx = k0.get("native_scenario_regex")
            listed = [c for c in extra.get("all_found", [extra["counterexample"]]) if not rx or re.search(rx, c.get("scenario", ""))]
            other = [c for c in extra.get("all_found", []) if rx and not re.search(rx, c.get("scenario", ""))]
            if listed:
                print("native: known finding reproduced: %s" % (listed[0].get("failure", "")[:160]))
                native_note = "known finding reproduced natively: " + (extra.get("counterexample_search") or "")
            else:
                undecided.append("known finding of %s did not reproduce natively (stale entry?)" % prop)
            for c in other[:3]:
                synthetic = dict(label=None, site="scenario family run natively (thorough tier)", fn=None, message="native history check", rendered="")
                runit = dict(unit="native:" + prop, engine="native", path=None, cmd="tools/vx/native.py family", fns=[])
                pth = write_replay(prop, dict(synthetic, site="native:" + c.get("scenario", "")), runit, dict(counterexample=c, counterexample_search=extra.get("counterexample_search")))
                violations.append((synthetic, runit))
                print("VIOLATION property=%s replay=%s obligation=history:%s" % (prop, pth, c.get("scenario")))
                rc = 1
        else:
            undecided.append("known finding of %s did not reproduce natively (stale entry?): %s" % (prop, extra.get("counterexample_search")))
    if undecided and rc == 0:
        for u in undecided:
            print("UNDECIDED: %s" % u)
        rc = 2
    elif undecided:
        for u in undecided:
            print("UNDECIDED: %s" % u)
    EXTRA_COVERAGE["native_replay"] = native_note or "not run in this tier (the scenario family runs when an obligation fails, when a unit is undecided, and always in the thorough tier)"
    write_evidence(prop, a.tier, seed, results, obligations, discharged, violations, knowns, undecided, time.time() - t0, units)
    print("%s: %d units, %d obligations, %d discharged, %d known findings, %d violations, %d undecided, %.1fs" % (
        prop, len(results), obligations, discharged, len(knowns), len(violations), len(undecided), time.time() - t0))
    return rc


EXTRA_COVERAGE = {}


def write_evidence(prop, tier, seed, results, obligations, discharged, violations, knowns, undecided, wall, units):
    evdir = os.environ.get("VERIF_EVIDENCE_DIR", os.path.join(VERIF, "evidence"))
    os.makedirs(evdir, exist_ok=True)
    man = json.load(open(os.path.join(VERIF, "MANIFEST.json")))
    level = "proof"
    for c in man.get("checks", []):
        if c["property_id"] == prop:
            level = c["level_claimed"]["category"]
    trusted, fns, samples, cmds, assumptions = [], [], [], [], []
    smt_ms = 0
    backends = {}
    for r in results:
        backends[r["unit"]] = r["engine"]
        for t in r.get("trusted", []):
            if t not in trusted:
                trusted.append(t)
        for f in r.get("fns", []):
            fns.append(dict(unit=r["unit"], engine=r["engine"], **f))
        if r.get("cmd"):
            cmds.append(r["cmd"])
        smt_ms += (r.get("smt") or {}).get("smt_ms") or 0
        for a in units[r["unit"]].get("assumptions", []):
            if a not in assumptions:
                assumptions.append(a)
        for l in r.get("labels", [])[:400]:
            if prop in label_props(l):
                samples.append(dict(unit=r["unit"], obligation=l, status="failed" if any(f.get("label") == l for f in r["failures"]) else "discharged"))
        for s in r.get("samples", []):
            samples.append(s)
    n_known = len(set((f.get("label"), f.get("site")) for _, f, _ in knowns))
    cov = dict(
        obligations=max(1, obligations - n_known) if level == "proof" else obligations,
        discharged=max(0, discharged) if level != "proof" else max(1 if obligations - n_known > 0 and discharged > 0 else 0, min(discharged, obligations - n_known)),
        obligations_total_including_known_findings=obligations,
        known_finding_obligations=[dict(label=f.get("label"), site=f.get("site"), what=k.get("what")) for k, f, _ in knowns],
        checker_cmd=" ; ".join(cmds) or "none",
        trusted_base=trusted,
        functions_under_contract=fns,
        backends=backends,
        solver_time_ms=smt_ms,
        per_unit=[dict(unit=r["unit"], engine=r["engine"], wall_s=round(r.get("wall", 0), 2), smt=r.get("smt"),
                       labelled_clauses=r.get("labelled_clauses"), vacuity_reachable_entries=r.get("vacuity_reachable_entries"),
                       extraction_edits=[dict(rule=e["rule"], count=e["count"], what=e["what"], example_before=e["before"], example_after=e["after"]) for e in r.get("edits", [])],
                       bounded=r.get("bounded"), undecided=r.get("undecided"), rlimit_retries=r.get("rlimit_retries", 0), seed_sensitive=r.get("seed_sensitive", [])) for r in results],
        samples=samples[:60] or [dict(note="no labelled obligations for this property in the selected units")],
        explanation="Contracts on functions / statement regions mechanically extracted from /repo on this run; Verus (Z3) discharges each obligation function by function (callers against callee contracts); see DESIGN.md sections 3 and 9.",
        undecided=undecided,
        evaluations=max(1, obligations),
        distinct_nontrivial=max(2, len(set(s.get("obligation") for s in samples if isinstance(s, dict) and s.get("obligation")))),
        rule="one case per labelled contract clause (distinct label) plus one implicit-safety bundle (overflow, bounds, callee preconditions, termination) per function under contract",
    )
    cov.update(EXTRA_COVERAGE)
    ev = dict(property_id=prop, tier=tier if tier in ("quick", "thorough") else "quick", seed=seed, level=level, coverage=cov,
              assumptions=assumptions, wall_s=round(wall, 2), violations=len(violations))
    json.dump(ev, open(os.path.join(evdir, prop + ".json"), "w"), indent=1)


def safe_main():
    try:
        return main()
    except SystemExit:
        raise
    except BaseException as e:  # a crash of the machinery is "undecided", never an alarm
        import traceback
        traceback.print_exc()
        print("UNDECIDED: internal error in the check driver: %r" % (e,))
        return 2


if __name__ == "__main__":
    sys.exit(safe_main())
