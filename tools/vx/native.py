"""Native replay against the real code: scenario families (counterexample search
for a failed obligation) and confirmation of known findings.  A family runs real
functions of the repository under test (VERIF_REPO) - never a model of them."""
import json, os, subprocess, shutil


def _rustc_family(name, repo, verif, build, subst, timeout=300):
    src = open(os.path.join(verif, "replay", name, "main.rs")).read()
    for k, v in subst.items():
        src = src.replace(k, v)
    d = os.path.join(build, "replay-" + name)
    os.makedirs(d, exist_ok=True)
    open(os.path.join(d, "main.rs"), "w").write(src)
    exe = os.path.join(d, "family")
    p = subprocess.run(["rustc", "--edition", "2021", "-O", "-o", exe, os.path.join(d, "main.rs")],
                       capture_output=True, text=True, timeout=timeout)
    if p.returncode != 0:
        return dict(counterexample=None, counterexample_search="family %s did not compile against the tree under test: %s" % (name, p.stderr[-600:]))
    r = subprocess.run([exe], capture_output=True, text=True, timeout=timeout)
    last = [l for l in r.stdout.splitlines() if l.startswith("{")]
    if not last:
        return dict(counterexample=None, counterexample_search="family %s produced no verdict (rc=%d): %s" % (name, r.returncode, (r.stdout + r.stderr)[-600:]))
    v = json.loads(last[-1])
    if v.get("found"):
        return dict(counterexample=v, counterexample_search="scenario family replay/%s run natively against the real functions" % name)
    return dict(counterexample=None, counterexample_search="scenario family replay/%s: %s cases, none disagreed" % (name, v.get("tried")))


def family_c25(prop, fail, unit_res, repo, verif, build):
    return _rustc_family("c25", repo, verif, build,
                         {"@TYPES@": os.path.join(repo, "distributed-walrus/src/controller/types.rs")})


FAMILIES = {"C25": family_c25}


def run_native_unit(unit, tier, seed, repo, verif, build, prop):
    raise NotImplementedError


def search_counterexample(prop, fail, unit_res, repo, verif, build):
    """Try the scenario family registered for this property; returns a dict that is
    merged into the replay file. No family / nothing found -> counterexample None."""
    fam = FAMILIES.get(prop)
    if not fam:
        return dict(counterexample=None, counterexample_search="no scenario family registered for this property")
    return fam(prop, fail, unit_res, repo, verif, build)


def _dw_shim(binname, repo, verif, build, timeout=900):
    """Build replay/dw_shim (real distributed-walrus/src/metadata.rs + serde_json-backed bincode shim) and run a family bin."""
    d = os.path.join(build, "replay-dw_shim")
    if os.path.exists(d):
        shutil.rmtree(d)
    shutil.copytree(os.path.join(verif, "replay", "dw_shim"), d, ignore=shutil.ignore_patterns("target"))
    lib = os.path.join(d, "src", "lib.rs")
    s = open(lib).read().replace("@METADATA@", os.path.join(repo, "distributed-walrus/src/metadata.rs"))
    open(lib, "w").write(s)
    env = dict(os.environ, CARGO_NET_OFFLINE="true", CARGO_TARGET_DIR=os.path.join(build, "replay-dw_shim-target"))
    p = subprocess.run(["cargo", "run", "--offline", "--release", "-q", "--bin", binname], cwd=d, env=env,
                       capture_output=True, text=True, timeout=timeout)
    last = [l for l in p.stdout.splitlines() if l.startswith("{")]
    if not last:
        return dict(counterexample=None, counterexample_search="dw_shim/%s gave no verdict (rc=%d): %s" % (binname, p.returncode, p.stderr[-600:]))
    v = json.loads(last[-1])
    if v.get("found"):
        return dict(counterexample=v, counterexample_search="scenario family replay/dw_shim/%s run natively against the real Metadata::apply (serde_json-backed bincode shim)" % binname)
    return dict(counterexample=None, counterexample_search="scenario family dw_shim/%s: %s histories, none failed" % (binname, v.get("tried")))


def family_c18(prop, fail, unit_res, repo, verif, build):
    return _dw_shim("c18_family", repo, verif, build)


FAMILIES["C18"] = family_c18


def _core_replay(binname, args_fn, repo, verif, build, timeout=1500):
    """Build replay/core against the tree under test (walrus-rust by path) and run one of its binaries."""
    d = os.path.join(build, "replay-core")
    os.makedirs(d, exist_ok=True)
    if os.path.exists(os.path.join(d, "src")):
        shutil.rmtree(os.path.join(d, "src"))
    shutil.copytree(os.path.join(verif, "replay", "core", "src"), os.path.join(d, "src"))
    open(os.path.join(d, "Cargo.toml"), "w").write(open(os.path.join(verif, "replay", "core", "Cargo.toml")).read().replace("@REPO@", repo))
    if os.path.exists(os.path.join(repo, "Cargo.lock")):
        shutil.copy(os.path.join(repo, "Cargo.lock"), os.path.join(d, "Cargo.lock"))
    env = dict(os.environ, CARGO_NET_OFFLINE="true", CARGO_TARGET_DIR=os.path.join(build, "replay-core-target"), WALRUS_QUIET="1")
    b = subprocess.run(["cargo", "build", "--offline", "--release", "-q", "--bin", binname], cwd=d, env=env, capture_output=True, text=True, timeout=timeout)
    if b.returncode != 0:
        return dict(counterexample=None, counterexample_search="replay/core did not build against the tree under test: %s" % b.stderr[-800:])
    scratch = os.path.join(build, "replay-scratch")
    shutil.rmtree(scratch, ignore_errors=True)
    os.makedirs(scratch, exist_ok=True)
    exe = os.path.join(build, "replay-core-target", "release", binname)
    try:
        p = subprocess.run([exe] + args_fn(scratch), env=env, capture_output=True, text=True, timeout=timeout)
    finally:
        pass
    last = [l for l in p.stdout.splitlines() if l.startswith("{")]
    shutil.rmtree(scratch, ignore_errors=True)
    if not last:
        return dict(counterexample=None, counterexample_search="replay/core %s gave no verdict (rc=%d): %s" % (binname, p.returncode, (p.stdout + p.stderr)[-600:]))
    found = [json.loads(l) for l in last if json.loads(l).get("found")]
    if found:
        return dict(counterexample=found[0], counterexample_search="scenario family replay/core/%s run natively against the real engine" % binname)
    return dict(counterexample=None, counterexample_search="scenario family replay/core/%s: %s cases, none failed" % (binname, json.loads(last[-1]).get("tried")))


def family_c14(prop, fail, unit_res, repo, verif, build):
    return _core_replay("c14_family", lambda scratch: [scratch], repo, verif, build)


FAMILIES["C14"] = family_c14
