"""Native replay against the real code: scenario families (counterexample search
for a failed obligation) and confirmation of known findings."""
import json, os, subprocess


def run_native_unit(unit, tier, seed, repo, verif, build, prop):
    raise NotImplementedError


def search_counterexample(prop, fail, unit_res, repo, verif, build):
    """Try the scenario family registered for this property; returns a dict that is
    merged into the replay file. No family / nothing found -> counterexample None."""
    return dict(counterexample=None, counterexample_search="no scenario family registered for this obligation")
