"""Native replay against the real code: scenario families (counterexample search
for a failed obligation) and confirmation of known findings.  A family runs real
functions of the repository under test (VERIF_REPO) - never a model of them."""
import json, os, subprocess, shutil


def _rustc_family(name, repo, verif, build, subst, timeout=300):
    src = open(os.path.join(verif, "replay", name, "main.rs")).read()
    for k, v in subst.items():
        src = src.replace(k, v)
    d = os.path.join(build, "replay-" + name)
    os.makedirs(d, exist_ok=True)
    open(os.path.join(d, "main.rs"), "w").write(src)
    exe = os.path.join(d, "family")
    p = subprocess.run(["rustc", "--edition", "2021", "-O", "-o", exe, os.path.join(d, "main.rs")],
                       capture_output=True, text=True, timeout=timeout)
    if p.returncode != 0:
        return dict(counterexample=None, counterexample_search="family %s did not compile against the tree under test: %s" % (name, p.stderr[-600:]))
    r = subprocess.run([exe], capture_output=True, text=True, timeout=timeout)
    last = [l for l in r.stdout.splitlines() if l.startswith("{")]
    if not last:
        return dict(counterexample=None, counterexample_search="family %s produced no verdict (rc=%d): %s" % (name, r.returncode, (r.stdout + r.stderr)[-600:]))
    v = json.loads(last[-1])
    if v.get("found"):
        return dict(counterexample=v, counterexample_search="scenario family replay/%s run natively against the real functions" % name)
    return dict(counterexample=None, counterexample_search="scenario family replay/%s: %s cases, none disagreed" % (name, v.get("tried")))


def family_c25(prop, fail, unit_res, repo, verif, build):
    return _rustc_family("c25", repo, verif, build,
                         {"@TYPES@": os.path.join(repo, "distributed-walrus/src/controller/types.rs")})


FAMILIES = {"C25": family_c25}


def run_native_unit(unit, tier, seed, repo, verif, build, prop):
    raise NotImplementedError


def search_counterexample(prop, fail, unit_res, repo, verif, build):
    """Try the scenario family registered for this property; returns a dict that is
    merged into the replay file. No family / nothing found -> counterexample None."""
    fam = FAMILIES.get(prop)
    if not fam:
        return dict(counterexample=None, counterexample_search="no scenario family registered for this property")
    return fam(prop, fail, unit_res, repo, verif, build)


def _dw_shim(binname, repo, verif, build, timeout=900):
    """Build replay/dw_shim (real distributed-walrus/src/metadata.rs + serde_json-backed bincode shim) and run a family bin."""
    d = os.path.join(build, "replay-dw_shim")
    if os.path.exists(d):
        shutil.rmtree(d)
    shutil.copytree(os.path.join(verif, "replay", "dw_shim"), d, ignore=shutil.ignore_patterns("target"))
    lib = os.path.join(d, "src", "lib.rs")
    s = open(lib).read().replace("@METADATA@", os.path.join(repo, "distributed-walrus/src/metadata.rs"))
    open(lib, "w").write(s)
    env = dict(os.environ, CARGO_NET_OFFLINE="true", CARGO_TARGET_DIR=os.path.join(build, "replay-dw_shim-target"))
    p = subprocess.run(["cargo", "run", "--offline", "--release", "-q", "--bin", binname], cwd=d, env=env,
                       capture_output=True, text=True, timeout=timeout)
    last = [l for l in p.stdout.splitlines() if l.startswith("{")]
    if not last:
        return dict(counterexample=None, counterexample_search="dw_shim/%s gave no verdict (rc=%d): %s" % (binname, p.returncode, p.stderr[-600:]))
    v = json.loads(last[-1])
    if v.get("found"):
        return dict(counterexample=v, counterexample_search="scenario family replay/dw_shim/%s run natively against the real Metadata::apply (serde_json-backed bincode shim)" % binname)
    return dict(counterexample=None, counterexample_search="scenario family dw_shim/%s: %s histories, none failed" % (binname, v.get("tried")))


def family_c18(prop, fail, unit_res, repo, verif, build):
    return _dw_shim("c18_family", repo, verif, build)


FAMILIES["C18"] = family_c18


def _core_replay(binname, args_fn, repo, verif, build, timeout=1500):
    """Build replay/core against the tree under test (walrus-rust by path) and run one of its binaries."""
    d = os.path.join(build, "replay-core")
    os.makedirs(d, exist_ok=True)
    if os.path.exists(os.path.join(d, "src")):
        shutil.rmtree(os.path.join(d, "src"))
    shutil.copytree(os.path.join(verif, "replay", "core", "src"), os.path.join(d, "src"))
    open(os.path.join(d, "Cargo.toml"), "w").write(open(os.path.join(verif, "replay", "core", "Cargo.toml")).read().replace("@REPO@", repo))
    if os.path.exists(os.path.join(repo, "Cargo.lock")):
        shutil.copy(os.path.join(repo, "Cargo.lock"), os.path.join(d, "Cargo.lock"))
    env = dict(os.environ, CARGO_NET_OFFLINE="true", CARGO_TARGET_DIR=os.path.join(build, "replay-core-target"), WALRUS_QUIET="1")
    b = subprocess.run(["cargo", "build", "--offline", "--release", "-q", "--bin", binname], cwd=d, env=env, capture_output=True, text=True, timeout=timeout)
    if b.returncode != 0:
        return dict(counterexample=None, counterexample_search="replay/core did not build against the tree under test: %s" % b.stderr[-800:])
    scratch = os.path.join(build, "replay-scratch")
    shutil.rmtree(scratch, ignore_errors=True)
    os.makedirs(scratch, exist_ok=True)
    exe = os.path.join(build, "replay-core-target", "release", binname)
    # fault-injection seam (LD_PRELOAD, no change to the repository): fsync / file creation / rename can be made to fail
    lib = os.path.join(build, "libwalrusfault.so")
    c = subprocess.run(["gcc", "-shared", "-fPIC", "-O1", "-o", lib, os.path.join(verif, "replay", "faultlib", "fault.c"), "-ldl"], capture_output=True, text=True)
    run_env = dict(env)
    if c.returncode == 0:
        run_env["LD_PRELOAD"] = lib
    try:
        p = subprocess.run([exe] + args_fn(scratch), env=run_env, capture_output=True, text=True, timeout=timeout)
    except subprocess.TimeoutExpired:
        shutil.rmtree(scratch, ignore_errors=True)
        return dict(counterexample=dict(found=True, failure="the scenario run did not finish within %ds (hang)" % timeout),
                    counterexample_search="scenario family replay/core/%s run natively: timed out" % binname)
    last = [l for l in p.stdout.splitlines() if l.startswith("{")]
    shutil.rmtree(scratch, ignore_errors=True)
    if not last:
        return dict(counterexample=None, counterexample_search="replay/core %s gave no verdict (rc=%d): %s" % (binname, p.returncode, (p.stdout + p.stderr)[-600:]))
    found = [json.loads(l) for l in last if json.loads(l).get("found")]
    if found:
        return dict(counterexample=found[0], counterexample_search="scenario family replay/core/%s run natively against the real engine" % binname)
    return dict(counterexample=None, counterexample_search="scenario family replay/core/%s: %s cases, none failed" % (binname, json.loads(last[-1]).get("tried")))


def family_c14(prop, fail, unit_res, repo, verif, build):
    return _core_replay("c14_family", lambda scratch: [scratch], repo, verif, build)


FAMILIES["C14"] = family_c14


def core_scenarios():
    """Deterministic grid of histories for the abstract-view oracle of replay/core (C01, C02, C03, C09, C15, C06)."""
    S = []
    big = " ".join(["A:t:1048576"] * 12)          # one sealed 10 MiB block (9 entries) + 3 in the tail
    small = lambda n, sz=100: " ".join(["A:t:%d" % sz] * n)
    budgets = [0, 1, 255, 256, 356, 1000, 2 * 1048576, 18446744073709551615]
    for b in budgets:
        S.append(("sealed_budget_%d" % b, "strict", "%s X:t:%d:1 X:t:%d:1 R:t X:t:%d:1" % (big, b, b, b)))
        S.append(("tail_budget_%d" % b, "strict", "%s X:t:%d:1 R:t X:t:%d:0 X:t:%d:1" % (small(6), b, b, b)))
        S.append(("midblock_budget_%d" % b, "strict", "%s R:t R:t X:t:%d:1 X:t:%d:1" % (big, b, b)))
    for sizes in (["0", "0", "5"], ["127", "128", "129"], ["0"], ["5", "0", "0", "7"], ["300", "1", "127", "127", "200"]):
        ops = " ".join("A:t:%s" % s for s in sizes)
        S.append(("sizes_%s" % "_".join(sizes), "strict", "%s X:t:1000:1 X:t:1000:1" % ops))
        S.append(("sizes_rn_%s" % "_".join(sizes), "strict", "%s %s R:t" % (ops, " ".join(["R:t"] * len(sizes)))))
        S.append(("sizes_batch_%s" % "_".join(sizes), "strict", "B:t:%s P:t X:t:100000:0 X:t:100000:1 X:t:10:1" % ",".join(sizes)))
    S.append(("peek_then_consume", "strict", "%s P:t X:t:1000:0 S:t:1000:1:300 S:t:1000:0:0 R:t X:t:5000:1" % small(8)))
    S.append(("stateless_alo", "alo3", "%s S:t:2000:1:2780 R:t R:t" % small(10)))
    S.append(("two_topics", "strict", "A:a:10 A:b:20 A:a:30 R:b R:a X:a:100:1 R:b R:a"))
    S.append(("reopen_strict", "strict", "%s R:t R:t O R:t X:t:1000:1 O R:t" % small(6)))
    S.append(("reopen_strict_sealed", "strict", "%s R:t R:t R:t O R:t X:t:3000000:1 O R:t R:t" % big))
    # rejected / failed appends must leave no trace (C04); F:* needs the LD_PRELOAD fault seam
    S.append(("reject_after_data", "strict", "A:t:100 A:t:200 A:t:300 E:t:1073741825 A:t:400 R:t R:t R:t R:t R:t"))
    S.append(("reject_first", "strict", "E:t:1073741825 A:t:400 R:t R:t O R:t"))
    S.append(("reject_other_topics", "strict", "A:a:10 E:t:1073741825 A:c:20 A:t:5 O R:a R:c R:t R:t"))
    S.append(("sync_fail", "strict+sync", "A:t:100 F:FSYNC:1 E:t:150 A:t:200 R:t R:t R:t O R:t"))
    S.append(("sync_fail_restart", "strict+sync", "A:t:100 F:FSYNC:1 E:t:150 O R:t R:t"))
    S.append(("batch_reject_span", "strict", "A:t:100 EB:t:6291456,6291456,1073741825 A:t:50 R:t R:t R:t"))
    S.append(("batch_reject_simple", "strict", "A:t:100 EB:t:10,1073741825 A:t:50 R:t R:t R:t"))
    S.append(("batch_flush_fail", "strict", "A:t:100 F:FSYNC:1 EB:t:10,20 A:t:50 R:t R:t O R:t"))
    S.append(("batch_flush_fail_restart", "strict", "A:t:100 F:FSYNC:1 EB:t:10,20 O R:t R:t"))
    # a batch that already switched blocks while planning fails at its final flush (fault after K good fsyncs)
    S.append(("batch_span_flush_fail", "strict", "A:t:100 F:FSYNC:s2 EB:t:6291456,6291456,6291456 A:t:50 R:t R:t R:t"))
    S.append(("batch_span_flush_fail_restart", "strict", "A:t:100 F:FSYNC:s2 EB:t:6291456,6291456,6291456 A:t:50 O R:t R:t R:t"))
    S.append(("batch_span_flush_fail_s1", "strict", "A:t:100 F:FSYNC:s1 EB:t:6291456,6291456 A:t:50 R:t R:t R:t"))
    S.append(("batch_span_flush_fail_then_batch", "strict", "A:t:100 F:FSYNC:s3 EB:t:6291456,6291456,6291456,6291456 B:t:6291456,6291456 R:t R:t R:t O R:t"))
    # a block that was allocated but never written (rejected first append) must not end the recovery of its file (C06, C07)
    S.append(("empty_block_then_other_topic", "strict", "E:a:1073741825 A:b:10 A:b:20 O R:b R:b"))
    S.append(("empty_block_read_before", "strict", "E:a:1073741825 A:b:10 R:b A:b:20 O R:b O A:b:5 R:b"))
    S.append(("empty_block_tail_cursor", "strict", "A:b:10 E:a:1073741825 A:c:10 R:c O A:c:20 R:c R:b O R:c"))
    # the last block of a file filled to within less than one header (256 bytes) of the end of the file, then a restart (C06, C16)
    fill99 = " ".join("A:f%02d:10" % i for i in range(99))
    last = " ".join(["A:z:1048310"] * 10)
    for be in ("", "+mmap"):
        S.append(("last_block_almost_full_restart" + be.replace("+", "_"), "strict" + be, "%s %s O R:z R:f00 A:z:5 R:z" % (fill99, last)))
    # entries above 10 MiB: the block spans several 10 MiB units; entries behind the big one must survive a restart (C06, C07)
    S.append(("big_then_small_restart", "strict", "A:t:15728640 A:t:100 A:t:200 O R:t R:t R:t"))
    S.append(("big_then_small_other_topic", "strict", "A:a:10 A:t:15728640 A:b:20 A:t:100 O R:t R:t R:a R:b"))
    S.append(("big_restart_append", "strict", "A:t:15728640 O A:t:100 R:t R:t O R:t A:t:5 R:t"))
    S.append(("small_big_small", "strict", "A:t:100 A:t:12000000 A:t:200 A:t:300 R:t O R:t R:t R:t"))
    S.append(("big_batch_restart", "strict", "B:t:100,12000000,300 A:u:7 B:t:5 O R:t R:t R:t R:t R:u"))
    # a rolled-back entry above 10 MiB leaves payload bytes (no header) in the units behind its zeroed header: recovery must step over them
    S.append(("rolled_back_big_entry_then_other_topic", "strict", "A:a:10 F:FSYNC:s3 EB:t:15728640 A:b:20 O R:a R:b"))
    S.append(("rolled_back_big_entry_then_more", "strict", "A:a:10 A:t:5 F:FSYNC:s3 EB:t:15728640 A:b:20 A:t:7 O R:a R:b R:t R:t"))
    # a batch consumer that was exactly caught up on the active block; the producer then rolls over; restart (C06 hydration + tail fold)
    S.append(("caught_up_tail_then_rollover_restart", "strict", "A:t:100 A:t:200 X:t:1000:1 %s O X:t:3000000:1 X:t:30000000:1 R:t" % big))
    S.append(("caught_up_tail_then_rollover_restart_rn", "strict", "A:t:100 R:t %s O R:t X:t:30000000:1 R:t" % big))
    # a topic name too long for the 256-byte entry header: single and batch appends must be rejected (not panic) and leave no trace (C04, C16)
    longt = "x" * 300
    S.append(("long_topic_batch", "strict", "A:t:10 EB:%s:10,20 A:t:20 R:t R:t" % longt))
    S.append(("long_topic_single", "strict", "A:t:10 E:%s:10 A:t:20 R:t R:t" % longt))
    S.append(("long_topic_batch_then_restart", "strict", "EB:%s:10,20 E:%s:10 A:t:5 R:t O R:t A:t:6 R:t" % (longt, longt)))
    S.append(("long_topic_batch_mmap", "strict+mmap", "A:t:10 EB:%s:10,20 A:t:20 R:t R:t" % longt))
    S.append(("stateless_alo_cursor", "alo3", "A:t:300 A:t:300 A:t:300 A:t:300 A:t:300 A:t:300 R:t S:t:1048576:1:0 P:t R:t"))
    # clean/dirty markers across immediate and delayed clean restarts (C17)
    S.append(("clean_immediate_reopen", "strict", "A:t:10 OI P:t C:t OI P:t D:t OI P:t"))
    S.append(("clean_mark_sequence", "strict", "A:a:10 A:b:10 C:a OI C:b D:a OI A:b:5 C:a OI OI"))
    S.append(("clean_delayed_reopen", "strict", "A:t:10 C:t O A:t:10 O C:t D:t C:t O"))
    for k in range(6):
        S.append(("clean_flip_%d" % k, "strict", " ".join(["A:t:10", "C:t"] * (k + 1)) + " OI " + " ".join(["D:t", "C:t"] * k) + " D:t OI"))
    for n in (3, 5):
        S.append(("alo%d_tail_restart" % n, "alo%d" % n, "%s %s O R:t" % (small(20), " ".join(["R:t"] * 12))))
        S.append(("alo%d_sealed_restart" % n, "alo%d" % n, "%s %s O R:t" % (big, " ".join(["R:t"] * 7))))
    return S


def family_core(prop, fail, unit_res, repo, verif, build):
    sc = core_scenarios()
    def args(scratch):
        f = os.path.join(scratch, "scenarios.txt")
        open(f, "w").write("\n".join("%s ; %s ; %s" % s for s in sc) + "\n")
        return [f, os.path.join(scratch, "data")]
    return _core_replay("walrus-replay", args, repo, verif, build)


for _p in ("C01", "C02", "C03", "C04", "C07", "C09", "C10", "C15", "C16", "C06", "C17"):
    FAMILIES[_p] = family_core


def family_c06_clock(prop, fail, unit_res, repo, verif, build):
    return _core_replay("c06_clock_family", lambda scratch: [scratch], repo, verif, build)


def family_c08(prop, fail, unit_res, repo, verif, build):
    return _core_replay("c08_family", lambda scratch: [scratch], repo, verif, build)


FAMILIES["C08"] = family_c08


def family_c11(prop, fail, unit_res, repo, verif, build):
    return _core_replay("c11_family", lambda scratch: [scratch], repo, verif, build, timeout=3000)


FAMILIES["C11"] = family_c11


def family_c21(prop, fail, unit_res, repo, verif, build, timeout=1200):
    """replay/c21_shim: the real octopii/src/wal/mod.rs (WriteAheadLog) + the engine copy vendored with it; tokio and crate::error are shims."""
    d = os.path.join(build, "replay-c21_shim")
    if os.path.exists(d):
        shutil.rmtree(d)
    shutil.copytree(os.path.join(verif, "replay", "c21_shim"), d, ignore=shutil.ignore_patterns("target"))
    lib = os.path.join(d, "src", "lib.rs")
    src = open(lib).read().replace("@WALMOD@", os.path.join(repo, "octopii/src/wal/mod.rs"))
    open(lib, "w").write(src)
    if os.path.exists(os.path.join(repo, "Cargo.lock")):
        shutil.copy(os.path.join(repo, "Cargo.lock"), os.path.join(d, "Cargo.lock"))
    env = dict(os.environ, CARGO_NET_OFFLINE="true", CARGO_TARGET_DIR=os.path.join(build, "replay-c21_shim-target"), WALRUS_QUIET="1", WALRUS_REPLAY_ALL="1")
    scratch = os.path.join(build, "replay-scratch-c21")
    shutil.rmtree(scratch, ignore_errors=True)
    os.makedirs(scratch, exist_ok=True)
    p = subprocess.run(["cargo", "run", "--offline", "--release", "-q", "--bin", "c21_family", "--", scratch], cwd=d, env=env, capture_output=True, text=True, timeout=timeout)
    shutil.rmtree(scratch, ignore_errors=True)
    last = [l for l in p.stdout.splitlines() if l.startswith("{")]
    if not last:
        return dict(counterexample=None, counterexample_search="c21_shim gave no verdict (rc=%d): %s" % (p.returncode, p.stderr[-600:]))
    found = [json.loads(l) for l in last if json.loads(l).get("found")]
    if found:
        return dict(counterexample=found[0], all_found=found, counterexample_search="scenario family replay/c21_shim/c21_family run natively against the real WriteAheadLog (tokio stand-in)")
    return dict(counterexample=None, counterexample_search="scenario family c21_shim/c21_family: %s histories, none failed" % json.loads(last[-1]).get("tried"))


FAMILIES["C21"] = family_c21


def family_c13(prop, fail, unit_res, repo, verif, build):
    return _core_replay("c13_family", lambda scratch: [scratch], repo, verif, build)


FAMILIES["C13"] = family_c13


def family_c24(prop, fail, unit_res, repo, verif, build, timeout=900):
    """replay/c24_shim: the real distributed-walrus/src/client.rs over an in-memory tokio shim."""
    d = os.path.join(build, "replay-c24_shim")
    if os.path.exists(d):
        shutil.rmtree(d)
    shutil.copytree(os.path.join(verif, "replay", "c24_shim"), d, ignore=shutil.ignore_patterns("target"))
    lib = os.path.join(d, "src", "lib.rs")
    src = open(lib).read().replace("@CLIENT@", os.path.join(repo, "distributed-walrus/src/client.rs"))
    open(lib, "w").write(src)
    env = dict(os.environ, CARGO_NET_OFFLINE="true", CARGO_TARGET_DIR=os.path.join(build, "replay-c24_shim-target"))
    p = subprocess.run(["cargo", "run", "--offline", "--release", "-q", "--bin", "c24_family"], cwd=d, env=env, capture_output=True, text=True, timeout=timeout)
    last = [l for l in p.stdout.splitlines() if l.startswith("{")]
    if not last:
        return dict(counterexample=None, counterexample_search="c24_shim gave no verdict (rc=%d): %s" % (p.returncode, p.stderr[-600:]))
    v = json.loads(last[-1])
    if v.get("found"):
        return dict(counterexample=v, counterexample_search="scenario family replay/c24_shim run natively against the real client.rs (in-memory tokio shim)")
    return dict(counterexample=None, counterexample_search="scenario family replay/c24_shim: %s streams, none failed" % v.get("tried"))


FAMILIES["C24"] = family_c24


def family_c06(prop, fail, unit_res, repo, verif, build):
    """C06: histories with in-process restarts (core scenarios), then runs as separate processes with a pinned wall clock."""
    r = family_core(prop, fail, unit_res, repo, verif, build)
    if r.get("counterexample"):
        return r
    r2 = family_c06_clock(prop, fail, unit_res, repo, verif, build)
    r2["counterexample_search"] = (r.get("counterexample_search") or "") + "; " + (r2.get("counterexample_search") or "")
    return r2


FAMILIES["C06"] = family_c06


def family_c10(prop, fail, unit_res, repo, verif, build):
    """C10: histories with injected flush failures (core scenarios), then the system-call trace family (what is synced before an operation returns)."""
    r = family_core(prop, fail, unit_res, repo, verif, build)
    if r.get("counterexample"):
        return r
    r2 = _core_replay("c10_trace_family", lambda scratch: [scratch], repo, verif, build)
    r2["counterexample_search"] = (r.get("counterexample_search") or "") + "; " + (r2.get("counterexample_search") or "")
    return r2


FAMILIES["C10"] = family_c10


def family_c12(prop, fail, unit_res, repo, verif, build):
    return _core_replay("c12_family", lambda scratch: [scratch], repo, verif, build)


FAMILIES["C12"] = family_c12
