"""Minimal Rust-aware lexer: enough to find items, match delimiters and locate
loops/macros in *unmodified* source text without being fooled by comments,
strings, char literals or lifetimes.  Nothing here re-prints code: every
consumer works with offsets into the original text."""
import re

class LexError(Exception):
    pass

_IDENT_START = set("abcdefghijklmnopqrstuvwxyzABCDEFGHIJKLMNOPQRSTUVWXYZ_")
_IDENT_CONT = _IDENT_START | set("0123456789")


def tokens(src):
    """Return list of (kind, start, end). kinds: ws, comment, str, char,
    lifetime, ident, num, punct."""
    out = []
    i, n = 0, len(src)
    while i < n:
        c = src[i]
        if c in " \t\r\n":
            j = i + 1
            while j < n and src[j] in " \t\r\n":
                j += 1
            out.append(("ws", i, j)); i = j; continue
        if src.startswith("//", i):
            j = src.find("\n", i)
            j = n if j < 0 else j
            out.append(("comment", i, j)); i = j; continue
        if src.startswith("/*", i):
            depth, j = 1, i + 2
            while j < n and depth:
                if src.startswith("/*", j):
                    depth += 1; j += 2
                elif src.startswith("*/", j):
                    depth -= 1; j += 2
                else:
                    j += 1
            out.append(("comment", i, j)); i = j; continue
        # raw / byte strings
        m = re.compile(r'b?r(#*)"').match(src, i)
        if m and (i == 0 or src[i - 1] not in _IDENT_CONT):
            hashes = m.group(1)
            end = src.find('"' + hashes, m.end())
            if end < 0:
                raise LexError("unterminated raw string at %d" % i)
            j = end + 1 + len(hashes)
            out.append(("str", i, j)); i = j; continue
        if c == '"' or (c == 'b' and i + 1 < n and src[i + 1] == '"'):
            j = i + (2 if c == 'b' else 1)
            while j < n and src[j] != '"':
                j += 2 if src[j] == '\\' else 1
            j += 1
            out.append(("str", i, j)); i = j; continue
        if c == "'" or (c == 'b' and i + 1 < n and src[i + 1] == "'"):
            k = i + (1 if c == 'b' else 0)
            # char literal?
            m = re.compile(r"'(\\x[0-9a-fA-F]{2}|\\u\{[0-9a-fA-F_]+\}|\\.|[^\\'])'").match(src, k)
            if m:
                out.append(("char", i, m.end())); i = m.end(); continue
            # lifetime
            j = k + 1
            while j < n and src[j] in _IDENT_CONT:
                j += 1
            out.append(("lifetime", i, j)); i = j; continue
        if c in _IDENT_START:
            j = i + 1
            while j < n and src[j] in _IDENT_CONT:
                j += 1
            out.append(("ident", i, j)); i = j; continue
        if c.isdigit():
            j = i + 1
            while j < n and (src[j] in _IDENT_CONT or (src[j] == '.' and j + 1 < n and src[j + 1].isdigit())):
                j += 1
            out.append(("num", i, j)); i = j; continue
        out.append(("punct", i, i + 1)); i += 1
    return out


def code_tokens(src):
    return [t for t in tokens(src) if t[0] not in ("ws", "comment")]


_OPEN = {"(": ")", "[": "]", "{": "}"}
_CLOSE = {v: k for k, v in _OPEN.items()}


def match_close(src, toks, idx):
    """toks: code token list; idx: index of an opening delimiter token.
    Returns index of the matching closing token."""
    assert src[toks[idx][1]] in _OPEN, src[toks[idx][1]:toks[idx][1] + 10]
    stack = []
    for j in range(idx, len(toks)):
        k, s, e = toks[j]
        if k != "punct":
            continue
        ch = src[s]
        if ch in _OPEN:
            stack.append(ch)
        elif ch in _CLOSE:
            if not stack or stack[-1] != _CLOSE[ch]:
                raise LexError("unbalanced delimiter at offset %d" % s)
            stack.pop()
            if not stack:
                return j
    raise LexError("no closing delimiter for offset %d" % toks[idx][1])


def tok_text(src, t):
    return src[t[1]:t[2]]


def norm(s):
    """Whitespace-normalised text (used for site labels and header compare)."""
    return re.sub(r"\s+", " ", s).strip()


def norm_code(s):
    """Token text joined by single spaces, comments and whitespace dropped."""
    return " ".join(s[a:b] for _, a, b in code_tokens(s))


def line_of(src, off):
    return src.count("\n", 0, off) + 1
