"""Run Verus on a generated unit file and turn its JSON diagnostics into
named obligations."""
import json, os, re, subprocess, time
from . import lex

VERUS = os.environ.get("VERUS_BIN", "verus")

UNDECIDED_PATTERNS = (
    "resource limit", "rlimit", "not supported", "unsupported", "is not supported",
    "cannot find", "mismatched types", "unresolved", "expected", "no method named",
    "borrow", "lifetime", "cannot", "must be", "trigger", "could not", "is private",
    "panicked", "internal error", "unexpected", "recommend",
)

VERIFICATION_MESSAGES = (
    "postcondition not satisfied",
    "precondition not satisfied",
    "assertion failed",
    "invariant not satisfied",
    "possible arithmetic underflow/overflow",
    "possible arithmetic",
    "possible division by zero",
    "possible bit shift",
    "decreases not satisfied",
    "loop invariant not satisfied",
    "unreachable",
    "could not prove termination",
    "possible truncation",
    "constructed value may fail to meet its declared type invariant",
)


def run(path, rlimit=30, seed=None, threads=16, timeout=600, extra=None):
    cmd = [VERUS, path, "--error-format=json", "--output-json", "--time-expanded",
           "--rlimit", str(rlimit), "--num-threads", str(threads), "--multiple-errors", "25"]
    if seed is not None:
        cmd += ["--smt-option", "smt.random_seed=%d" % seed]
    if extra:
        cmd += extra
    t0 = time.time()
    try:
        p = subprocess.run(cmd, capture_output=True, text=True, timeout=timeout,
                           cwd=os.path.dirname(path))
        out, err, rc = p.stdout, p.stderr, p.returncode
    except subprocess.TimeoutExpired as e:
        return dict(cmd=" ".join(cmd), rc=-9, timeout=True, diags=[], stats=None, wall=time.time() - t0, raw_err=str(e))
    diags = []
    for line in err.splitlines():
        line = line.strip()
        if not line.startswith("{"):
            continue
        try:
            d = json.loads(line)
        except ValueError:
            continue
        if d.get("$message_type") == "diagnostic":
            diags.append(d)
    stats = None
    try:
        i = out.index("{")
        stats = json.loads(out[i:])
    except ValueError:
        pass
    return dict(cmd=" ".join(cmd), rc=rc, timeout=False, diags=diags, stats=stats,
                wall=time.time() - t0, raw_err=err if not diags and rc != 0 else "")


def fn_ranges(text, fns):
    """line ranges of the extracted fn items in the generated text. `fns` is a list of names or of (name, head) pairs;
    with a head (the emitted signature+clauses text) the item is located exactly, otherwise by the first `fn name`."""
    res = []
    for f in fns:
        name, head = (f, None) if isinstance(f, str) else f
        start = None
        if head:
            i = text.find(head)
            if i >= 0:
                start = i
        if start is None:
            m = re.search(r"(?m)^(?:\s*(?:pub |unsafe |proof |spec |exec |open |closed )*)fn\s+%s\b" % re.escape(name), text)
            if not m:
                continue
            start = m.start()
        sub = text[start:]
        mm = re.search(r"(?m)^\{", sub)
        if not mm:
            continue
        toks = lex.code_tokens(sub)
        bo = mm.start()
        try:
            ti = next(i for i, t in enumerate(toks) if t[1] == bo)
            ce = toks[lex.match_close(sub, toks, ti)][2]
        except (StopIteration, lex.LexError):
            continue
        res.append((name, text.count("\n", 0, start) + 1, text.count("\n", 0, start + ce) + 1))
    return res


def classify(result, text, labels, fns):
    """-> (failures, undecided_reasons)
    failures: list of dict(label, site, kind, fn, message, rendered, lines)"""
    lines = text.split("\n")
    ranges = fn_ranges(text, fns)

    def fn_of(line):
        for name, a, b in ranges:
            if a <= line <= b:
                return name
        return "?"

    failures, undecided = [], []
    if result.get("timeout"):
        undecided.append("verus timed out")
    for d in result["diags"]:
        lvl = d.get("level")
        msg = d.get("message", "")
        if lvl not in ("error",):
            # warnings / notes are ignored, except rlimit notes
            if "resource limit" in msg.lower():
                undecided.append(msg)
            continue
        if msg.startswith("aborting due to"):
            continue
        is_verif = any(msg.startswith(v) or v in msg for v in VERIFICATION_MESSAGES)
        if "resource limit" in msg.lower() or "rlimit" in msg.lower():
            undecided.append(msg + " :: " + _first_line(d))
            continue
        if not is_verif or d.get("code"):
            undecided.append("verus front-end error: " + msg + " :: " + _first_line(d))
            continue
        spans = [s for s in d.get("spans", [])]
        for ch in d.get("children", []):
            spans += ch.get("spans", [])
        if not spans:
            continue  # summary line without location (Verus repeats the message); the located diagnostic follows
        prim = [s for s in spans if s.get("is_primary")]
        ours = [s for s in spans if not s["file_name"].startswith("/") or os.path.basename(s["file_name"]) == os.path.basename(result.get("path", ""))]
        label = None
        # the clause that failed is the span Verus tags "failed this postcondition / precondition / invariant";
        # exit-path spans ("at the end of the function body") cover many lines and must not be searched for labels
        tagged = [s for s in spans if "failed" in (s.get("label") or "")]
        for s in tagged:
            for ln in range(s["line_start"], s["line_end"] + 1):
                if ln in labels:
                    label = labels[ln]
                    break
            if label:
                break
        if label is None and not tagged:
            for s in prim:
                if s["line_start"] == s["line_end"] and s["line_start"] in labels:
                    label = labels[s["line_start"]]
                    break
        pl = prim[0]["line_start"] if prim else 0
        ptext = ""
        if prim:
            # highlighted text of the primary span (first line only), normalised
            t0 = prim[0]["text"][0] if prim[0].get("text") else None
            if t0:
                ptext = lex.norm(re.sub(r"//@L.*$", "", t0["text"]))
        fn = fn_of(pl)
        # disambiguate repeated statements (e.g. two `continue;`) by their ordinal inside the function
        if ptext and fn != "?":
            a = next((x[1] for x in ranges if x[0] == fn), None)
            if a is not None:
                nth = sum(1 for ln in range(a, pl) if lex.norm(re.sub(r"//@L.*$", "", lines[ln - 1])) == ptext)
                if nth:
                    ptext = "%s #%d" % (ptext, nth + 1)
        kind = msg.split(":")[0]
        kind = re.sub(r"[^a-z]+", "_", kind.lower()).strip("_")
        failures.append(dict(label=label, site="%s@%s:%s" % (kind, fn, ptext), kind=kind, fn=fn,
                             message=msg, rendered=d.get("rendered", ""), line=pl))
    if result["rc"] != 0 and not failures and not undecided:
        undecided.append("verus exited %d without diagnostics: %s" % (result["rc"], (result.get("raw_err") or "")[:400]))
    return failures, undecided


def _first_line(d):
    r = d.get("rendered") or ""
    ls = [l for l in r.splitlines() if l.strip()]
    return " | ".join(ls[:4])[:400]


def smt_summary(stats):
    if not stats:
        return {}
    t = stats.get("times-ms", {})
    out = dict(total_ms=t.get("total"), smt_ms=t.get("smt", {}).get("total"),
               smt_run_ms=t.get("smt", {}).get("smt-run"), functions=[])
    for mod in t.get("smt", {}).get("smt-run-module-times", []):
        for f in mod.get("function-breakdown", []):
            out["functions"].append(dict(function=f["function"], mode=f.get("mode:"), ms=f["time"],
                                         rlimit=f["rlimit"], success=f["success"]))
    vr = stats.get("verification-results", {})
    out["verified"] = vr.get("verified")
    out["errors"] = vr.get("errors")
    return out
