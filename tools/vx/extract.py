"""vx-extract: cut real functions / closures / statement regions out of the
*current* /repo sources, apply an enumerated list of logged span edits, glue on
sidecar contracts and emit one Verus file per unit.

Exit discipline (enforced by callers): any failure to locate an item, anchor or
rule target raises ExtractError -> the check exits 2 (undecided), never 1."""
import os, re, json
from . import lex


class ExtractError(Exception):
    pass


# --------------------------------------------------------------------------
# locating items
# --------------------------------------------------------------------------

def _find_block_items(src, toks, lo, hi, depth_target=0):
    """Yield (kind, name_or_header, tok_index_of_keyword, open_idx, close_idx)
    for `impl` blocks and `fn` items whose keyword sits at brace depth 0
    relative to token range [lo, hi)."""
    depth = 0
    j = lo
    while j < hi:
        k, s, e = toks[j]
        t = src[s:e]
        if k == "punct" and t in "{([":
            # skip nested groups entirely unless we look for deeper items
            c = lex.match_close(src, toks, j)
            j = c + 1
            continue
        if k == "ident" and t in ("impl", "fn", "mod"):
            # find the opening brace of this item (first `{` at paren depth 0)
            m = j + 1
            while m < hi:
                kk, ss, ee = toks[m]
                tt = src[ss:ee]
                if kk == "punct" and tt in "([":
                    m = lex.match_close(src, toks, m) + 1
                    continue
                if kk == "punct" and tt == "{":
                    break
                if kk == "punct" and tt == ";":
                    m = -1
                    break
                m += 1
            if m < 0 or m >= hi:
                j += 1
                continue
            close = lex.match_close(src, toks, m)
            header = lex.norm(src[toks[j][1]:toks[m][1]])
            yield (t, header, j, m, close)
            j = close + 1
            continue
        j += 1


def _strip_generics(h):
    return re.sub(r"<[^<>]*>", "", h)


def locate_fn(src, path):
    """path like 'impl Walrus / fn read_next' or 'fn f' or
    'impl Walrus / fn outer / fn inner'. Returns dict with offsets."""
    toks = lex.code_tokens(src)
    parts = [p.strip() for p in path.split("/")]
    ranges = [(0, len(toks))]
    found = None
    for pi, part in enumerate(parts):
        nxt = []
        last = pi == len(parts) - 1
        for lo, hi in ranges:
            for kind, header, kw, op, cl in _walk(src, toks, lo, hi, deep=(pi > 0 and parts[pi - 1].startswith("fn"))):
                if part.startswith("impl") or part.startswith("mod"):
                    if kind in ("impl", "mod") and lex.norm(_strip_generics(header)) == lex.norm(part):
                        nxt.append((op + 1, cl))
                elif part.startswith("fn "):
                    name = part[3:].strip()
                    if kind == "fn" and re.match(r"fn\s+%s\b" % re.escape(name), header):
                        if last:
                            if found is not None:
                                raise ExtractError("ambiguous item path %r" % path)
                            found = (kw, op, cl)
                        else:
                            nxt.append((op + 1, cl))
        if not last and not nxt:
            raise ExtractError("lost anchor: %r not found (at %r)" % (path, part))
        ranges = nxt
    if found is None:
        raise ExtractError("lost anchor: item %r not found" % path)
    kw, op, cl = found
    # qualifiers before `fn`
    q = kw
    quals = []
    while q - 1 >= 0:
        k, s, e = toks[q - 1]
        t = src[s:e]
        if k == "ident" and t in ("pub", "unsafe", "async", "const", "extern"):
            quals.insert(0, t); q -= 1; continue
        if k == "punct" and t == ")":
            # pub(crate) / pub(super)
            # walk back to matching '('
            d, m = 0, q - 1
            while m >= 0:
                tt = src[toks[m][1]:toks[m][2]]
                if tt == ")": d += 1
                if tt == "(":
                    d -= 1
                    if d == 0: break
                m -= 1
            if m - 1 >= 0 and src[toks[m - 1][1]:toks[m - 1][2]] == "pub":
                q = m; continue
        break
    return dict(
        quals=quals,
        sig=src[toks[kw][1]:toks[op][1]],
        body=src[toks[op][1]:toks[cl][2]],
        sig_off=toks[kw][1], body_off=toks[op][1], end_off=toks[cl][2],
        line=lex.line_of(src, toks[kw][1]), end_line=lex.line_of(src, toks[cl][2]),
    )


def _walk(src, toks, lo, hi, deep):
    """Items directly in [lo,hi); when deep, also items nested in inner blocks
    (needed for fns declared inside fn bodies)."""
    if not deep:
        yield from _find_block_items(src, toks, lo, hi)
        return
    j = lo
    while j < hi:
        k, s, e = toks[j]
        t = src[s:e]
        if k == "ident" and t in ("fn",):
            # reuse the shallow finder on a window starting here
            for it in _find_block_items(src, toks, j, hi):
                yield it
                j = it[4]
                break
        j += 1


def locate_closure(src, fn_path, index, pattern=r"\|\s*\w+\s*\|\s*\{"):
    """The index-th closure literal (|x| { ... }) inside fn_path.
    Returns dict(body=..., off=..., full=(start,end))."""
    f = locate_fn(src, fn_path)
    body = f["body"]
    toks = lex.code_tokens(body)
    hits = []
    for i, (k, s, e) in enumerate(toks):
        if k == "punct" and body[s] == "|":
            m = re.compile(pattern).match(body, s)
            if m:
                # find the `{` token index
                for j in range(i, len(toks)):
                    if toks[j][1] == m.end() - 1:
                        cl = lex.match_close(body, toks, j)
                        hits.append((s, toks[j][1], toks[cl][2]))
                        break
    if index >= len(hits):
        raise ExtractError("lost anchor: closure #%d of %s" % (index, fn_path))
    s, ob, ce = hits[index]
    return dict(body=body[ob:ce], params=body[s:ob], line=lex.line_of(src, f["body_off"] + s),
                abs_span=(f["body_off"] + s, f["body_off"] + ce))


def locate_region(src, fn_path, start_anchor, end_anchor, include_end=False):
    """Contiguous text of fn_path's body from the first occurrence of
    start_anchor up to (not including) end_anchor (literal substrings)."""
    f = locate_fn(src, fn_path)
    body = f["body"]
    a = body.find(start_anchor)
    if a < 0 or body.find(start_anchor, a + 1) >= 0:
        raise ExtractError("lost anchor: region start %r in %s (missing or ambiguous)" % (start_anchor, fn_path))
    if end_anchor is None:
        b = body.rstrip().rfind("}")      # region runs to the end of the function body
    else:
        b = body.find(end_anchor, a + len(start_anchor))
        if b < 0:
            raise ExtractError("lost anchor: region end %r in %s" % (end_anchor, fn_path))
        if include_end:
            b += len(end_anchor)
    text = body[a:b]
    # the region must be delimiter-balanced
    toks = lex.code_tokens(text)
    depth = 0
    for k, s, e in toks:
        if k == "punct" and text[s] in "([{": depth += 1
        if k == "punct" and text[s] in ")]}":
            depth -= 1
            if depth < 0:
                raise ExtractError("region %r..%r is not balanced" % (start_anchor, end_anchor))
    if depth != 0:
        raise ExtractError("region %r..%r is not balanced" % (start_anchor, end_anchor))
    return dict(text=text, line=lex.line_of(src, f["body_off"] + a),
                end_line=lex.line_of(src, f["body_off"] + b))


# --------------------------------------------------------------------------
# edit rules
# --------------------------------------------------------------------------

class EditLog:
    def __init__(self):
        self.entries = []

    def add(self, rule, what, before, after, n=1):
        self.entries.append(dict(rule=rule, what=what, before=before[:200], after=after[:200], count=n))


def drop_macros(text, names, log, rule="R1"):
    """Remove statement macros `name!( ... );` (balanced)."""
    toks = lex.code_tokens(text)
    spans = []
    i = 0
    while i < len(toks):
        k, s, e = toks[i]
        if k == "ident" and text[s:e] in names and i + 2 < len(toks) and text[toks[i + 1][1]] == "!" \
                and text[toks[i + 2][1]] in "([{":
            # allow `tracing::info!`
            start = s
            b = i
            while b - 2 >= 0 and text[toks[b - 1][1]:toks[b - 1][2]] == ":" and text[toks[b - 2][1]:toks[b - 2][2]] == ":":
                b -= 3
                start = toks[b][1]
            cl = lex.match_close(text, toks, i + 2)
            end = toks[cl][2]
            if cl + 1 < len(toks) and text[toks[cl + 1][1]] == ";":
                end = toks[cl + 1][2]
            elif cl + 1 < len(toks) and text[toks[cl + 1][1]] == ",":
                # match arm `=> debug_print!(..),` -> `=> {},`
                spans.append((start, end, "{}"))
                i = cl + 1
                continue
            spans.append((start, end, ""))
            i = cl + 1
            continue
        i += 1
    out, last = [], 0
    for s, e, r in spans:
        out.append(text[last:s]); out.append(r); last = e
    out.append(text[last:])
    if spans:
        log.add(rule, "drop statement macros " + ",".join(sorted(names)), "", "", len(spans))
    return "".join(out)


def apply_rules(text, rules, log):
    for r in rules:
        kind = r.get("kind", "re")
        rule = r.get("rule", "R?")
        lo = r.get("min", 1)
        hi = r.get("max", None)
        if kind == "drop_macro":
            text = drop_macros(text, set(r["names"]), log, rule)
            continue
        if kind == "lit":
            n = text.count(r["old"])
            if n < lo or (hi is not None and n > hi):
                raise ExtractError("lost anchor: rule %s literal %r matched %d times (want %s..%s)" % (rule, r["old"][:60], n, lo, hi))
            if n:
                log.add(rule, r.get("why", ""), r["old"], r["new"], n)
            text = text.replace(r["old"], r["new"])
            continue
        if kind == "re":
            flags = re.S if r.get("dotall") else 0
            pat = re.compile(r["pat"], flags)
            ms = list(pat.finditer(text))
            n = len(ms)
            if n < lo or (hi is not None and n > hi):
                raise ExtractError("lost anchor: rule %s /%s/ matched %d times (want %s..%s)" % (rule, r["pat"][:60], n, lo, hi))
            if n:
                log.add(rule, r.get("why", ""), ms[0].group(0), pat.sub(r["repl"], ms[0].group(0), count=1), n)
            text = pat.sub(r["repl"], text)
            continue
        if kind == "closure_inline":
            text = _inline_closure(text, r, log)
            continue
        if kind == "lock_iflet":
            text = _rewrite_lock_iflet(text, r, log)
            continue
        if kind == "call":  # balanced call rewrite:  PREFIX( args ) SUFFIX_RE  ->  template
            text = _rewrite_call(text, r, log)
            continue
        raise ExtractError("unknown rule kind %r" % kind)
    return text


def _inline_closure(text, r, log):
    """R11:  `let mut NAME = |P: T| { BODY };`  +  calls `NAME(ARG);`   ->   body pasted at each call as
    `{ let P = ARG; BODY }` (beta-reduction). Fails closed if NAME is used in any other shape."""
    name = r["name"]
    m = re.search(r"let\s+(?:mut\s+)?%s\s*=\s*\|\s*(\w+)\s*:\s*[^|]+\|\s*\{" % re.escape(name), text)
    if not m:
        raise ExtractError("lost anchor: closure %s not found" % name)
    ob = m.end() - 1
    sub = text[ob:]
    toks = lex.code_tokens(sub)
    ce = ob + toks[lex.match_close(sub, toks, 0)][2]
    body = text[ob + 1:ce - 1]
    rest = text[ce:]
    ms = re.match(r"\s*;", rest)
    if not ms:
        raise ExtractError("closure %s is not a plain `let` statement" % name)
    param = m.group(1)
    text = text[:m.start()] + text[ce + ms.end():]
    call = re.compile(r"\b%s\(([^();]*)\);" % re.escape(name))
    calls = call.findall(text)
    if not calls:
        raise ExtractError("closure %s is never called in the expected shape" % name)
    text = call.sub(lambda mm: "{ let %s = %s;%s}" % (param, mm.group(1), body), text)
    if re.search(r"\b%s\b" % re.escape(name), text):
        raise ExtractError("closure %s is used in an unsupported shape" % name)
    log.add(r.get("rule", "R11"), "closure `%s` inlined at its %d call site(s) (beta-reduction)" % (name, len(calls)), "let mut %s = |%s| {..}" % (name, param), "{ let %s = <arg>; .. }" % param, len(calls))
    return text


def _rewrite_lock_iflet(text, r, log):
    """R2:  if let Ok(<pat>) = <EXPR>.read()|write()|lock() { A } [else { B }]   ->   { let <pat> = &mut <EXPR>; A }
    The else-arm (lock poisoned) is dropped: A-LOCK says locks never poison."""
    pat = re.compile(r"if let Ok\((mut\s+)?(\w+)\)\s*=\s*([\w\.:\(\)]+?)\.(?:read|write|lock)\(\)\s*\{", re.S)
    n = 0
    first = None
    while True:
        m = pat.search(text)
        if not m:
            break
        ob = m.end() - 1
        sub = text[ob:]
        toks = lex.code_tokens(sub)
        cl = lex.match_close(sub, toks, 0)
        end = ob + toks[cl][2]
        body = text[ob + 1:end - 1]
        rest = text[end:]
        me = re.match(r"\s*else\s*\{", rest)
        if me:
            sub2 = rest[me.end() - 1:]
            t2 = lex.code_tokens(sub2)
            c2 = lex.match_close(sub2, t2, 0)
            end = end + me.end() - 1 + t2[c2][2]
        new = "{ let %s%s = &mut %s;%s}" % (m.group(1) or "", m.group(2), m.group(3), body)
        if first is None:
            first = (text[m.start():m.end()], "{ let %s%s = &mut %s;" % (m.group(1) or "", m.group(2), m.group(3)))
        text = text[:m.start()] + new + text[end:]
        n += 1
    lo = r.get("min", 0)
    if n < lo:
        raise ExtractError("lost anchor: rule %s lock_iflet matched %d times" % (r.get("rule"), n))
    if n:
        log.add(r.get("rule", "R2"), "if let Ok(g) = X.read()/write() { A } else { B } -> { let g = &mut X; A }  (else-arm = poisoned lock, dropped)", first[0], first[1], n)
    return text


def _rewrite_call(text, r, log):
    """r: pat = regex that ends right before an opening '(' ; the balanced
    argument text is captured as {args}; optional `tail` regex must follow the
    closing paren and is consumed; `repl` is a format string using {args},
    {m1}.. (regex groups of pat) and {t1}.. (groups of tail)."""
    pat = re.compile(r["pat"], re.S)
    tail = re.compile(r.get("tail", ""), re.S)
    out, pos, n = [], 0, 0
    first = None
    while True:
        m = pat.search(text, pos)
        if not m:
            break
        o = m.end()
        if o >= len(text) or text[o] != "(":
            pos = m.end(); continue
        sub = text[o:]
        toks = lex.code_tokens(sub)
        cl = lex.match_close(sub, toks, 0)
        end = o + toks[cl][2]
        args = text[o + 1:end - 1]
        tm = tail.match(text, end)
        if not tm:
            out.append(text[pos:end]); pos = end; continue
        if r.get("args_sub"):
            args = re.sub(r["args_sub"][0], r["args_sub"][1], args, flags=re.S)
        kw = {"args": args}
        for i, g in enumerate(m.groups(), 1): kw["m%d" % i] = g
        for i, g in enumerate(tm.groups(), 1): kw["t%d" % i] = g
        new = r["repl"].format(**kw)
        if first is None:
            first = (text[m.start():tm.end()], new)
        out.append(text[pos:m.start()]); out.append(new)
        pos = tm.end(); n += 1
    out.append(text[pos:])
    lo, hi = r.get("min", 1), r.get("max")
    if n < lo or (hi is not None and n > hi):
        raise ExtractError("lost anchor: rule %s call /%s/ matched %d times (want %s..%s)" % (r.get("rule"), r["pat"][:60], n, lo, hi))
    if n:
        log.add(r.get("rule", "R?"), r.get("why", ""), first[0], first[1], n)
    return "".join(out)


# --------------------------------------------------------------------------
# loops and hints
# --------------------------------------------------------------------------

def find_loops(text):
    """Offsets of the opening `{` of each loop body, in source order."""
    toks = lex.code_tokens(text)
    res = []
    for i, (k, s, e) in enumerate(toks):
        if k != "ident":
            continue
        t = text[s:e]
        if t not in ("while", "loop", "for"):
            continue
        if t == "for" and i + 1 < len(toks) and text[toks[i + 1][1]] == "<":
            continue
        j = i + 1
        while j < len(toks):
            kk, ss, ee = toks[j]
            ch = text[ss:ee]
            if kk == "punct" and ch in "([":
                j = lex.match_close(text, toks, j) + 1
                continue
            if kk == "punct" and ch == "{":
                res.append((t, s, ss))
                break
            j += 1
    return res


def annotate_loops(text, loops, labels, unit_name, fn_name):
    """loops: {ordinal: dict(invariant=[(label,text)], decreases=str,
    invariant_except_break=..., ensures=...)}. Inserts before the body `{`.
    Returns (new_text, [(marker, label)])."""
    found = find_loops(text)
    inserts = []
    for ordinal, spec in loops.items():
        if ordinal >= len(found):
            raise ExtractError("lost anchor: loop #%d in %s (only %d loops)" % (ordinal, fn_name, len(found)))
        kind, kw_off, brace_off = found[ordinal]
        if "kind" in spec and spec["kind"] != kind:
            raise ExtractError("loop #%d in %s is `%s`, sidecar expects `%s`" % (ordinal, fn_name, kind, spec["kind"]))
        if spec.get("expect"):
            # the invariants are written for a particular loop: its text must still contain what identifies it, otherwise the
            # ordinals have shifted (a loop was added or removed) and the unit is undecided rather than mis-annotated
            sub = text[brace_off:]
            toks = lex.code_tokens(sub)
            body_end = brace_off + toks[lex.match_close(sub, toks, 0)][2]
            if not re.search(spec["expect"], text[kw_off:body_end]):
                raise ExtractError("lost anchor: loop #%d in %s no longer contains /%s/ (loops added or removed?)" % (ordinal, fn_name, spec["expect"]))
        if len(found) != spec.get("n_loops", len(found)):
            raise ExtractError("lost anchor: %s has %d loops, sidecar expects %d" % (fn_name, len(found), spec["n_loops"]))
        chunk = []
        for key in ("invariant_except_break", "invariant", "ensures"):
            if spec.get(key):
                chunk.append("\n    %s" % key)
                for lab, cl in spec[key]:
                    chunk.append("\n        %s, //@L %s" % (cl, lab))
        if spec.get("decreases"):
            chunk.append("\n    decreases %s," % spec["decreases"])
        chunk.append("\n")
        inserts.append((brace_off, "".join(chunk)))
    inserts.sort()
    out, last = [], 0
    for off, ins in inserts:
        out.append(text[last:off]); out.append(ins); last = off
    out.append(text[last:])
    return "".join(out)


def apply_hints(text, hints, fn_name):
    for h in hints:
        if "after_loop" in h or "loop_body_start" in h or "loop_body_end" in h or "before_loop" in h:
            # structural anchors: right after the closing brace / right after the opening brace of loop #n / right before the loop keyword
            n = h.get("after_loop", h.get("loop_body_start", h.get("loop_body_end", h.get("before_loop"))))
            found = find_loops(text)
            if n >= len(found):
                raise ExtractError("lost anchor: loop #%d for a structural hint in %s" % (n, fn_name))
            if "before_loop" in h:
                kw = found[n][1]
                text = text[:kw] + h["text"] + "\n" + text[kw:]
                continue
            ob = found[n][2]
            sub = text[ob:]
            toks = lex.code_tokens(sub)
            ce = ob + toks[lex.match_close(sub, toks, 0)][2]
            if "after_loop" in h:
                text = text[:ce] + "\n" + h["text"] + "\n" + text[ce:]
            elif "loop_body_end" in h:
                text = text[:ce - 1] + "\n" + h["text"] + "\n" + text[ce - 1:]
            else:
                text = text[:ob + 1] + "\n" + h["text"] + "\n" + text[ob + 1:]
            continue
        anchor = h.get("after") or h.get("before")
        n = text.count(anchor)
        if n < 1 or (h.get("count") is not None and n != h["count"]):
            raise ExtractError("lost anchor: hint anchor %r in %s matched %d times" % (anchor[:70], fn_name, n))
        ins = h["text"]
        if "after" in h:
            text = text.replace(anchor, anchor + "\n" + ins + "\n")
        else:
            text = text.replace(anchor, ins + "\n" + anchor)
    return text


# --------------------------------------------------------------------------
# signature handling
# --------------------------------------------------------------------------

def transform_sig(sig, item):
    """fn name(params) -> T   ==>   fn name(params) -> (ret: T)"""
    s = sig.strip()
    for r in item.get("sig_rules", []):
        n = len(re.findall(r["pat"], s))
        if n < r.get("min", 1):
            raise ExtractError("lost anchor: sig rule /%s/ on %r" % (r["pat"], s[:80]))
        s = re.sub(r["pat"], r["repl"], s)
    ret = item.get("ret", "ret")
    # split at top-level '->'
    toks = lex.code_tokens(s)
    depth = 0
    arrow = None
    for i, (k, a, b) in enumerate(toks):
        ch = s[a:b]
        if k == "punct" and ch in "([<" : depth += 1 if ch != "<" else 0
        if k == "punct" and ch in ")]": depth -= 1
        if depth == 0 and k == "punct" and ch == "-" and i + 1 < len(toks) and s[toks[i + 1][1]] == ">":
            arrow = a
            break
    if arrow is None:
        return s
    # where-clause is not expected in the extracted fns
    return "%s-> (%s: %s)" % (s[:arrow], ret, s[arrow + 2:].strip())


def clauses(kind, lst):
    if not lst:
        return ""
    out = ["    %s\n" % kind]
    for lab, cl in lst:
        out.append("        %s,%s\n" % (cl, (" //@L " + lab) if lab else ""))
    return "".join(out)


# --------------------------------------------------------------------------
# unit assembly
# --------------------------------------------------------------------------

GLOBAL_RULES = [
    dict(rule="R1", kind="drop_macro", names=["debug_print", "info", "warn", "debug", "error", "trace", "debug_assert"]),
]


def build_item(repo, item, log):
    kind = item.get("kind", "fn")
    src = ""
    if kind not in ("stub", "text_check"):
        path = os.path.join(repo, item["file"])
        try:
            src = open(path).read()
        except OSError as e:
            raise ExtractError("lost anchor: cannot read %s: %s" % (path, e))
    name = item.get("name")
    if kind == "fn":
        f = locate_fn(src, item["path"])
        sig = item.get("sig") or transform_sig(f["sig"], item)
        if item.get("sig"):
            # a replaced signature must still correspond to the source one
            want = item.get("sig_source_norm")
            if want and lex.norm(f["sig"]) != lex.norm(want):
                raise ExtractError("signature of %s changed: %r" % (item["path"], lex.norm(f["sig"])))
        body = f["body"]
        where = "%s:%d-%d" % (item["file"], f["line"], f["end_line"])
        if "unsafe" in f["quals"] and not item.get("drop_unsafe"):
            sig = "unsafe " + sig
        name = name or re.match(r"(?:unsafe\s+)?fn\s+(\w+)", sig).group(1)
    elif kind == "closure":
        c = locate_closure(src, item["within"], item["index"], item.get("pattern", r"\|\s*\w+\s*\|\s*\{"))
        sig = item["sig"]
        body = c["body"]
        where = "%s:%d (closure #%d of %s)" % (item["file"], c["line"], item["index"], item["within"])
        name = name or re.match(r"fn\s+(\w+)", sig).group(1)
    elif kind == "region":
        r = locate_region(src, item["within"], item["start"], item.get("end"), item.get("include_end", False))
        sig = item["sig"]
        body = "{\n" + item.get("pre", "") + r["text"] + item.get("post", "") + "\n}"
        where = "%s:%d-%d (region of %s)" % (item["file"], r["line"], r["end_line"], item["within"])
        name = name or re.match(r"fn\s+(\w+)", sig).group(1)
    elif kind == "mirror":
        # R15 struct mirror: every mirrored field must exist in the source struct with the recorded source type
        m = re.search(r"(?m)^\s*(?:pub(?:\([a-z]+\))?\s+)?struct\s+%s\b[^;{]*\{" % re.escape(item["struct"]), src)
        if not m:
            raise ExtractError("lost anchor: struct %s in %s" % (item["struct"], item["file"]))
        toks = lex.code_tokens(src)
        ti = next(i for i, t in enumerate(toks) if t[1] == m.end() - 1)
        body_src = src[m.end():toks[lex.match_close(src, toks, ti)][1]]
        out = []
        fields = list(item.get("fields", []))
        if item.get("mirror_all"):
            # every field of the source struct, atomics mapped to plain integers/bools (R4), other types verbatim
            amap = {"AtomicBool": "bool", "AtomicU64": "u64", "AtomicU32": "u32", "AtomicU16": "u16", "AtomicUsize": "usize", "AtomicI64": "i64"}
            for fm in re.finditer(r"(?m)^\s*(?:pub(?:\([a-z]+\))?\s+)?(\w+)\s*:\s*(.+?),\s*(?://.*)?$", body_src):
                ty = lex.norm(fm.group(2))
                fields.append((fm.group(1), ty, item.get("type_map", {}).get(ty, amap.get(ty, ty))))
        for fname, src_ty, new_ty in fields:
            fm = re.search(r"(?m)^\s*(?:pub(?:\([a-z]+\))?\s+)?%s\s*:\s*(.+?),\s*(?://.*)?$" % re.escape(fname), body_src)
            if not fm:
                raise ExtractError("lost anchor: field %s.%s" % (item["struct"], fname))
            if lex.norm(fm.group(1)) != lex.norm(src_ty):
                raise ExtractError("field %s.%s has type %r, sidecar expects %r" % (item["struct"], fname, lex.norm(fm.group(1)), src_ty))
            out.append("    pub %s: %s, // source type: %s" % (fname, new_ty, lex.norm(src_ty)))
            if src_ty != new_ty:
                log.add("R15", "struct mirror %s.%s" % (item["struct"], fname), src_ty, new_ty)
        for extra in item.get("ghost_fields", []):
            out.append("    pub %s," % extra)
        where = "%s:%d" % (item["file"], lex.line_of(src, m.start()))
        text = "// ---- struct mirror of %s (%d of its fields)\npub struct %s {\n%s\n}\n" % (where, len(fields), item.get("as", item["struct"]), "\n".join(out))
        return dict(name=item["struct"], text=text, where=where, raw_lines=len(out), body=None, head=None, attrs="", is_type=True)
    elif kind == "stub":
        # assumed contract of a callee that is verified elsewhere (or not at all): listed in the evidence
        if item.get("anchor"):
            # the assumed contract is tied to the exact (whitespace/comment-normalised) text of the function it describes:
            # any edit of that function makes the unit undecided instead of silently keeping the assumption
            a = item["anchor"]
            try:
                asrc = open(os.path.join(repo, a["file"])).read()
            except OSError as e:
                raise ExtractError("lost anchor: cannot read %s: %s" % (a["file"], e))
            af = locate_fn(asrc, a["path"])
            got = lex.norm_code(af["body"])
            if got.startswith("{") and got.endswith("}"):
                got = got[1:-1].strip()
            if got != lex.norm_code(a["body"]):
                raise ExtractError("assumed contract of %s: its source text changed (contract no longer known to describe it): %r" % (a["path"], lex.norm_code(af["body"])[:300]))
            log.add("R14", "assumed contract anchored to unchanged source text", a["path"], item["sig"])
        head = item["sig"].rstrip() + "\n" + clauses("requires", item.get("requires")) + clauses("ensures", item.get("ensures"))
        text = "// ---- ASSUMED CONTRACT (%s)\n#[verifier::external_body]\n%s{ unimplemented!() }\n" % (item.get("proved_in", "unproved"), head)
        if item.get("impl"):
            text = "impl %s {\n%s}\n" % (item["impl"], text)
        nm = re.search(r"fn\s+(\w+)", item["sig"]).group(1)
        return dict(name=nm, text=text, where="assumed contract; " + item.get("proved_in", "unproved"), raw_lines=0, body=None, head=None,
                    attrs="", is_type=True, is_stub=True)
    elif kind == "text_check":
        # a fact about the source text decided syntactically on every run and turned into a spec constant; the unit states
        # it as a labelled obligation.  captures: {name: (file, regex with one group)}; expr: python expression over them
        caps = {}
        for cname, (cfile, cpat) in item["captures"].items():
            try:
                csrc = open(os.path.join(repo, cfile)).read()
            except OSError as e:
                raise ExtractError("lost anchor: cannot read %s: %s" % (cfile, e))
            ms = re.findall(cpat, csrc)
            if len(ms) != 1:
                raise ExtractError("lost anchor: text_check capture /%s/ matched %d times in %s" % (cpat, len(ms), cfile))
            caps[cname] = ms[0]
        val = bool(eval(item["expr"], {"__builtins__": {}}, dict(caps)))
        text = "// ---- text check %s: %s  with %r\npub spec const %s: bool = %s;\n" % (item["const"], item["expr"], caps, item["const"], "true" if val else "false")
        log.add("R15", "text check %s" % item["const"], str(caps), str(val))
        return dict(name=item["const"], text=text, where="text check", raw_lines=len(caps), body=None, head=None, attrs="", is_type=True)
    elif kind == "lines":
        out = []
        for pat in item["patterns"]:
            ms = re.findall(pat, src, flags=re.M)
            if len(ms) != 1:
                raise ExtractError("lost anchor: line pattern /%s/ matched %d times in %s" % (pat, len(ms), item["file"]))
            out.append(re.sub(r"pub\((crate|super)\)", "pub", ms[0]))
        return dict(name="lines", text="// ---- extracted lines from %s\n%s\n" % (item["file"], "\n".join(out)), where=item["file"],
                    raw_lines=len(out), body=None, head=None, attrs="", is_type=True)
    elif kind == "struct":
        m = re.search(r"(?m)^\s*(?:pub(?:\([a-z]+\))?\s+)?(struct|enum)\s+%s\b[^;{]*\{" % re.escape(item["struct"]), src)
        if not m:
            raise ExtractError("lost anchor: struct %s in %s" % (item["struct"], item["file"]))
        toks = lex.code_tokens(src)
        ti = next(i for i, t in enumerate(toks) if t[1] == m.end() - 1)
        ce = toks[lex.match_close(src, toks, ti)][2]
        text = src[m.start(1):ce]
        text = re.sub(r"pub\((crate|super)\)", "pub", text)
        # field visibility is irrelevant inside the single-file unit: make every named field `pub`
        if m.group(1) == "struct":
            text = re.sub(r"(?m)^(\s+)(?!pub\b)(\w+)\s*:", r"\1pub \2:", text)
        extra = ""
        if item.get("serde_symmetric_check"):
            # A-BINCODE's side condition, decided syntactically: the only serde field attribute whose Serialize and
            # Deserialize sides agree for a non-self-describing format is `#[serde(default)]` on trailing data
            attrs_found = re.findall(r"#\[serde\(([^\]]*)\)\]", text)
            ok = all(lex.norm(a) == "default" for a in attrs_found)
            extra = "pub spec const SERDE_SYMMETRIC_%s: bool = %s; // serde attributes found: %s\n" % (item["struct"], "true" if ok else "false", attrs_found)
            text = re.sub(r"(?m)^\s*#\[serde\([^\]]*\)\]\s*\n", "", text)
            log.add("R15", "serde field attributes of %s checked for symmetry and dropped from the mirror" % item["struct"], str(attrs_found), "SERDE_SYMMETRIC_%s = %s" % (item["struct"], ok))
        text = apply_rules(text, item.get("rules", []), log)
        where = "%s:%d" % (item["file"], lex.line_of(src, m.start(1)))
        attrs = extra + "".join("%s\n" % a for a in item.get("attrs", []))
        return dict(name=item["struct"], text="// ---- extracted from %s\n%spub %s\n" % (where, attrs, text), where=where,
                    raw_lines=text.count("\n") + 1, body=None, head=None, attrs=attrs, is_type=True)
    else:
        raise ExtractError("unknown item kind %r" % kind)
    raw_body = body
    body = apply_rules(body, GLOBAL_RULES + item.get("rules", []), log)
    if item.get("loops"):
        body = annotate_loops(body, item["loops"], None, None, name)
    if item.get("hints"):
        body = apply_hints(body, item["hints"], name)
    if item.get("proof_prologue"):
        assert body.lstrip().startswith("{")
        i = body.index("{")
        body = body[:i + 1] + "\n    " + item["proof_prologue"] + "\n" + body[i + 1:]
    if item.get("proof_epilogue"):
        # anchor-free: just before the closing brace of the body (for bodies that end in a statement, i.e. return `()`)
        j = body.rindex("}")
        body = body[:j] + "    " + item["proof_epilogue"] + "\n" + body[j:]
    head = sig.rstrip() + "\n" + clauses("requires", item.get("requires")) + clauses("ensures", item.get("ensures"))
    if item.get("decreases"):
        head += "    decreases %s,\n" % item["decreases"]
    if item.get("opens_invariants"):
        head += "    opens_invariants %s\n" % item["opens_invariants"]
    attrs = "".join("%s\n" % a for a in item.get("attrs", []))
    text = "// ---- extracted from %s\n%s%s%s\n" % (where, attrs, head, body)
    imp = item.get("impl")
    if imp is None and kind == "fn":
        m = re.match(r"\s*impl\s+(.+?)\s*/", item["path"])
        if m and item.get("wrap_impl", True):
            imp = m.group(1)
    if imp:
        text = "impl %s {\n%s}\n" % (imp, text)
    return dict(name=name, text=text, where=where, raw_lines=raw_body.count("\n") + 1,
                body=body, head=head, attrs=attrs)


def build_unit(repo, verif, unit):
    """Returns dict(text=..., labels={line: label}, fns=[...], edits=[...])"""
    log = EditLog()
    parts = ["// GENERATED by vx-extract from %s -- do not edit\n" % repo]
    parts.append("#![allow(unused_imports, unused_variables, unused_mut, unused_assignments, dead_code, unused_parens, unused_unsafe, non_snake_case)]\n")
    for feat in unit.get("features", []):
        parts.append("#![feature(%s)]\n" % feat)
    parts.append("use vstd::prelude::*;\n")
    for u in unit.get("uses", []):
        parts.append("use %s;\n" % u)
    parts.append("verus! {\n")
    for p in unit.get("prelude", []):
        parts.append("// ---- prelude %s\n" % p)
        parts.append(open(os.path.join(verif, "specs", "prelude", p)).read())
        parts.append("\n")
    for p in unit.get("model", []):
        parts.append("// ---- model %s\n" % p)
        parts.append(open(os.path.join(verif, "specs", "model", p)).read())
        parts.append("\n")
    fns = []
    for item in unit["items"]:
        if item.get("kind") == "prelude":
            parts.append("// ---- prelude %s\n" % item["file"])
            parts.append(open(os.path.join(verif, "specs", "prelude", item["file"])).read())
            parts.append("\n")
            continue
        if item.get("kind") == "model":
            parts.append("// ---- model %s\n" % item["file"])
            parts.append(open(os.path.join(verif, "specs", "model", item["file"])).read())
            parts.append("\n")
            continue
        b = build_item(repo, item, log)
        fns.append(b)
        parts.append(b["text"])
    for p in unit.get("post", []):
        parts.append("// ---- post %s\n" % p)
        parts.append(open(os.path.join(verif, "specs", "model", p)).read())
        parts.append("\n")
    parts.append("} // verus!\nfn main() {}\n")
    text = "".join(parts)
    labels = {}
    for i, line in enumerate(text.split("\n"), 1):
        m = re.search(r"//@L\s+(\S+)", line)
        if m:
            labels[i] = m.group(1)
    return dict(text=text, labels=labels, fns=fns, edits=log.entries)


def vacuity_twin(built):
    """Same file, but every extracted fn body starts with assert(false):
    each must FAIL, otherwise its requires / the prelude axioms are contradictory."""
    text = built["text"]
    marks = []
    for f in built["fns"]:
        if f.get("is_type"):
            continue
        old = f["head"] + f["body"]
        assert old in text, f["name"]
        b = f["body"]
        new_body = "{ assert(false); //@VAC %s\n" % f["name"] + b[1:]
        text = text.replace(old, f["head"] + new_body, 1)
    lines = {}
    for i, line in enumerate(text.split("\n"), 1):
        m = re.search(r"//@VAC\s+(\S+)", line)
        if m:
            lines[i] = m.group(1)
    return text, lines
