def run_kani_unit(unit, tier, seed, repo, verif, build):
    raise NotImplementedError
