#!/bin/sh
# make_revert_canary.sh <fix-commit> <out.diff> : a patch that undoes one fix: commit on top of /repo HEAD
set -e
T=$(mktemp -d /tmp/walrus-canary.XXXXXX)
git -C /repo worktree add -q --detach "$T/wt" HEAD
( cd "$T/wt" && git revert -n "$1" >/dev/null 2>&1 && git diff HEAD > "$2" ) || echo "revert of $1 failed"
git -C /repo worktree remove --force "$T/wt"; rm -rf "$T"; git -C /repo worktree prune
