#!/usr/bin/env python3
import json, os, sys
sys.path.insert(0, os.path.join(os.path.dirname(__file__), ".."))
from specs.claims import CLAIMS, NOT_APPLICABLE, NOT_REACHED
V = os.path.abspath(os.path.join(os.path.dirname(__file__), ".."))
props = [json.loads(l)["id"] for l in open(os.path.join(V, "properties.jsonl"))]
checks, na = [], []
for p in props:
    if p in CLAIMS:
        c = CLAIMS[p]
        checks.append(dict(property_id=p, quick_cmd="./check %s --tier quick" % p, thorough_cmd="./check %s --tier thorough" % p,
                           evidence_file="/verif/evidence/%s.json" % p, replay_cmd_template="./check %s --replay {path}" % p,
                           engine=c.get("engine", "vx (Verus on extracted source)"),
                           level_claimed=dict(category=c["level"], text=c["text"], design_ref=c.get("design", "")),
                           level_note=c["note"], technique=c["technique"]))
    else:
        na.append(dict(property_id=p, reason=NOT_APPLICABLE.get(p, NOT_REACHED)))
man = dict(version=1,
           setup_cmd="python3 -c 'import sys; sys.exit(0)' && verus --version >/dev/null",
           hooks=dict(guard="none", enable="no hooks: the checks read /repo sources (Verus on mechanically extracted text) and compile the unmodified sources by path into native replay harnesses under the check's build directory; faults, crash points and the wall clock are injected from outside through an LD_PRELOAD library (replay/faultlib), /repo itself is never instrumented",
                      baseline_off_cmd="cd /repo && cargo test --workspace --no-fail-fast --offline", source_commits=[], add_only=True),
           engines=[dict(name="vx", path="/verif/tools/vx", serves_properties=sorted(CLAIMS), kind_free_text="mechanical extraction of real functions / statement regions from /repo + sidecar contracts -> Verus (Z3), function by function; native scenario families replay failing histories against the real code (no Kani harness is used)")],
           checks=checks, not_applicable=na,
           notes="exit 2 from a check means undecided (lost anchor, unsupported construct, solver limit) and is never an alarm; see DESIGN.md")
json.dump(man, open(os.path.join(V, "MANIFEST.json"), "w"), indent=1)
print("checks:", [c["property_id"] for c in checks], "n/a:", len(na))
