#!/usr/bin/env python3
"""mutcheck.py <patch.diff> <ID> [<ID>...]
Apply a patch to a scratch copy of /repo's sources (never /repo itself), run the
named checks against the copy (VERIF_REPO), print their verdicts, remove the copy.
Evidence/replays/build output of these runs go to a scratch dir as well."""
import os, shutil, subprocess, sys, tempfile
V = os.path.abspath(os.path.join(os.path.dirname(__file__), ".."))
patch, ids = sys.argv[1], sys.argv[2:]
tmp = tempfile.mkdtemp(prefix="walrus-mut.")
try:
    repo = os.path.join(tmp, "repo")
    subprocess.check_call(["git", "-C", "/repo", "worktree", "add", "-q", "--detach", repo, "HEAD"])
    if patch != "-":
        r = subprocess.run(["git", "-C", repo, "apply", "--3way", os.path.abspath(patch)], capture_output=True, text=True)
        if r.returncode != 0:
            print("PATCH FAILED", r.stderr[-500:]); sys.exit(3)
        if os.environ.get("MUT_SAVE_REBASED"):
            open(os.environ["MUT_SAVE_REBASED"], "w").write(subprocess.run(["git", "-C", repo, "diff", "HEAD"], capture_output=True, text=True).stdout)
    env = dict(os.environ, VERIF_REPO=repo, VERIF_EVIDENCE_DIR=os.path.join(tmp, "evidence"),
               VERIF_REPLAY_DIR=os.path.join(tmp, "replays"), VERIF_BUILD_DIR=os.path.join(tmp, "build"))
    worst = 0
    for i in ids:
        p = subprocess.run([os.path.join(V, "check"), i], env=env, capture_output=True, text=True)
        out = "\n".join(l[:300] for l in p.stdout.splitlines())
        print("== %s rc=%d\n%s" % (i, p.returncode, out))
        if p.stderr.strip():
            print(p.stderr[-2000:])
        worst = max(worst, p.returncode)
    sys.exit(worst)
finally:
    subprocess.run(["git", "-C", "/repo", "worktree", "remove", "--force", os.path.join(tmp, "repo")], capture_output=True)
    shutil.rmtree(tmp, ignore_errors=True)
    subprocess.run(["git", "-C", "/repo", "worktree", "prune"], capture_output=True)
