#!/usr/bin/env python3
"""import_seed.py <PROP> <m-dir> <name> <detected-by...>  : copy a confirmed seeded change into /verif/seeded/<PROP>-<name>/"""
import json, os, shutil, sys
prop, src, name = sys.argv[1:4]
det = sys.argv[4:]
dst = os.path.join(os.path.dirname(__file__), "..", "seeded", "%s-%s" % (prop, name))
os.makedirs(dst, exist_ok=True)
for f in os.listdir(src):
    p = os.path.join(src, f)
    if f in ("target",): continue
    if os.path.isdir(p):
        shutil.copytree(p, os.path.join(dst, f), dirs_exist_ok=True, ignore=shutil.ignore_patterns("target", "Cargo.lock"))
    else:
        shutil.copy(p, dst)
m = json.load(open(os.path.join(dst, "meta.json")))
m["confirmed_by_me"] = os.environ.get("CONFIRM", "")
m["detected_by"] = det
json.dump(m, open(os.path.join(dst, "meta.json"), "w"), indent=1)
print(dst)
