#!/bin/sh
# run every property that has units; print one line each (use before every commit: a label of another property may break silently)
cd "$(dirname "$0")/.." || exit 2
for p in C01 C02 C03 C04 C05 C06 C07 C08 C09 C10 C11 C12 C13 C14 C15 C16 C17 C18 C20 C21 C24 C25; do
  out=$(./check $p 2>&1); rc=$?
  echo "$out" | grep -E "VIOLATION|UNDECIDED" | cut -c1-220
  echo "$out" | tail -1 | sed "s/^/[rc=$rc] /" | cut -c1-200
done
