#!/usr/bin/env python3
"""unit_table.py: markdown table of all units (for DESIGN.md 9.2), from the unit descriptions and the latest evidence files."""
import glob, json, os, sys
sys.path.insert(0, os.path.join(os.path.dirname(__file__), ".."))
from tools.vx import driver
units = driver.load_units()
fns = {}
for f in sorted(glob.glob(os.path.join(os.path.dirname(__file__), "..", "evidence", "C*.json"))):
    e = json.load(open(f))
    for x in e["coverage"].get("functions_under_contract", []):
        fns.setdefault(x["unit"], {})[x["name"]] = (x["where"], x["source_lines"])
print("| unit | properties | real code under contract (source lines) |")
print("|---|---|---|")
for name in sorted(units):
    u = units[name]
    items = fns.get(name, {})
    desc = "; ".join("`%s` %s (%d)" % (n, w.split(" (")[0], l) for n, (w, l) in items.items()) or "(native / model only)"
    print("| %s%s | %s | %s |" % (name, " (wip)" if u.get("wip") else "", " ".join(u["props"]), desc))
