# One entry per property: what is claimed, by which method, with which trusted base.
# tools/gen_manifest.py turns this into MANIFEST.json (kept valid at all times).
CLAIMS = {
 "C14": dict(
    level="proof",
    text="Verus discharges, for all key strings of any length, contracts on the real sanitize_namespace (incl. its lifted closure) and on WalPathManager::{for_key,with_data_dir,default} extracted from /repo on every run: the sanitised key is a single normal path component (non-empty, no '/', no NUL, not '.' or '..') and the instance root is the data dir plus exactly that component. Unbounded in key length and content, which the two sampled keys of the suite cannot reach.",
    note="Trusted: std char/string semantics as specified in specs/prelude/strings.rs (is_ascii_alphanumeric, trim_matches, format!{:x}, chars().map().collect()), the PathBuf component model in specs/prelude/paths.rs, arbitrary-valued stubs for env/thread-local lookups; extraction edits R1/R8/R9 as logged in the evidence. WalrusBuilder::build and create_new_file/index_path are not yet under contract.",
    technique="contract-based deductive verification (Verus/Z3) of mechanically extracted real functions",
    design="4/C14"),
 "C25": dict(
    level="proof",
    text="Verus proves, for every topic string and every u64 segment, that the real wal_key returns exactly \"t_\"+topic+\"_s_\"+decimal(segment) and that the real parse_wal_key maps every string of that shape back to (topic, segment); the round-trip theorem and one-to-one-ness are then lemmas over these two contracts (the right-most \"_s_\" of a key always starts at 2+|topic| because decimal digits contain no '_'). Unbounded; the suite has no test for this mapping at all.",
    note="Trusted: Seq<char> specifications of str::{rsplitn,splitn,split_once,rsplit_once,strip_prefix,strip_suffix,starts_with,trim_start_matches,parse::<u64>,to_string} and of format!/Display for integers in specs/prelude/str_ext.rs and specs/model/c25_model.rs (axioms: decimal digits are non-empty digit strings; parse inverts Display). On violation the scenario family replay/c25 runs the real functions natively to produce a concrete failing (topic, segment).",
    technique="contract-based deductive verification (Verus/Z3) of mechanically extracted real functions; native replay of counterexamples",
    design="4/C25"),
 "C18": dict(
    level="proof",
    text="Verus proves on the real Metadata::apply (extracted each run, lock elided, bincode decode = arbitrary Result) that one application preserves the per-topic invariant (segments 1..current each with exactly one leader, open segment's leader = topic leader, sealed segments = 1..current-1, cumulative offset = sum of sealed counts) for every topic, never removes a topic, never changes count or leader of an already sealed segment, leaves the topics untouched on every Err return, and has no arithmetic overflow; the invariant is inductive so it holds for command sequences of any length over any number of topics and nodes, where the suite has none.",
    note="Trusted: vstd HashMap model + specs for HashMap::get_mut and entry().or_insert* (specs/prelude/hashmap_ext.rs), RwLock elision (single writer), bincode::deserialize as an arbitrary Result, &str.into()/Bytes::from_static stubs. Stated assumption: current_segment < u64::MAX (needs 2^64 rollovers). Counterexamples on violation come from replay/dw_shim (real metadata.rs compiled against a serde_json-backed bincode shim, exhaustive histories up to length 4).",
    technique="contract-based deductive verification (Verus/Z3): inductive data-structure invariant as pre/postcondition of the extracted real function; native replay of counterexamples",
    design="4/C18"),
}

NOT_APPLICABLE = {
 "C19": "multi-node Raft agreement is a protocol-level inductive invariant of the vendored async openraft core over several processes; no function-level contract carries it, the code is outside Verus' and Kani's reach and cannot be built offline",
 "C22": "exactly-once delivery over concurrent clients, rollovers and lease sync across nodes is a schedule/history property of tokio tasks and Raft timing with no per-function contract formulation; crate not buildable offline",
 "C23": "relates a Raft-apply event in one task to later bucket writes in another task; no common caller to put a contract on; crate not buildable offline",
}

NOT_REACHED = "not reached yet: contracts for this property's functions are still being built (see DESIGN.md section 7); no check is claimed rather than a vacuous one"
