# One entry per property: what is claimed, by which method, with which trusted base.
# tools/gen_manifest.py turns this into MANIFEST.json (kept valid at all times).
CLAIMS = {
 "C14": dict(
    level="proof",
    text="Verus discharges, for all key strings of any length, contracts on the real sanitize_namespace (incl. its lifted closure) and on WalPathManager::{for_key,with_data_dir,default} extracted from /repo on every run: the sanitised key is a single normal path component (non-empty, no '/', no NUL, not '.' or '..') and the instance root is the data dir plus exactly that component. Unbounded in key length and content, which the two sampled keys of the suite cannot reach.",
    note="Trusted: std char/string semantics as specified in specs/prelude/strings.rs (is_ascii_alphanumeric, trim_matches, format!{:x}, chars().map().collect()), the PathBuf component model in specs/prelude/paths.rs, arbitrary-valued stubs for env/thread-local lookups; extraction edits R1/R8/R9 as logged in the evidence. WalrusBuilder::build and create_new_file/index_path are not yet under contract.",
    technique="contract-based deductive verification (Verus/Z3) of mechanically extracted real functions",
    design="4/C14"),
 "C25": dict(
    level="proof",
    text="Verus proves, for every topic string and every u64 segment, that the real wal_key returns exactly \"t_\"+topic+\"_s_\"+decimal(segment) and that the real parse_wal_key maps every string of that shape back to (topic, segment); the round-trip theorem and one-to-one-ness are then lemmas over these two contracts (the right-most \"_s_\" of a key always starts at 2+|topic| because decimal digits contain no '_'). Unbounded; the suite has no test for this mapping at all.",
    note="Trusted: Seq<char> specifications of str::{rsplitn,splitn,split_once,rsplit_once,strip_prefix,strip_suffix,starts_with,trim_start_matches,parse::<u64>,to_string} and of format!/Display for integers in specs/prelude/str_ext.rs and specs/model/c25_model.rs (axioms: decimal digits are non-empty digit strings; parse inverts Display). On violation the scenario family replay/c25 runs the real functions natively to produce a concrete failing (topic, segment).",
    technique="contract-based deductive verification (Verus/Z3) of mechanically extracted real functions; native replay of counterexamples",
    design="4/C25"),
 "C18": dict(
    level="proof",
    text="Verus proves on the real Metadata::apply (extracted each run, lock elided, bincode decode = arbitrary Result) that one application preserves the per-topic invariant (segments 1..current each with exactly one leader, open segment's leader = topic leader, sealed segments = 1..current-1, cumulative offset = sum of sealed counts) for every topic, never removes a topic, never changes count or leader of an already sealed segment, leaves the topics untouched on every Err return, and has no arithmetic overflow; the invariant is inductive so it holds for command sequences of any length over any number of topics and nodes, where the suite has none.",
    note="Trusted: vstd HashMap model + specs for HashMap::get_mut and entry().or_insert* (specs/prelude/hashmap_ext.rs), RwLock elision (single writer), bincode::deserialize as an arbitrary Result, &str.into()/Bytes::from_static stubs. Stated assumption: current_segment < u64::MAX (needs 2^64 rollovers). Counterexamples on violation come from replay/dw_shim (real metadata.rs compiled against a serde_json-backed bincode shim, exhaustive histories up to length 4).",
    technique="contract-based deductive verification (Verus/Z3): inductive data-structure invariant as pre/postcondition of the extracted real function; native replay of counterexamples",
    design="4/C18"),
 "C15": dict(
    level="proof",
    text="Verus discharges contracts on the real increment/decrement_topic_entry_count (exact whole-map update, saturating, other topics untouched), append_for_topic / batch_append_for_topic (Ok: +1 / +batch.len(); Err on any path: unchanged), the whole of read_next (a consuming read that returns an entry decrements by exactly one; peeks, empty polls and read errors change nothing) and the per-topic body of the recount after recovery (= total entries minus entries before the persisted cursor, for both cursor encodings). All topic names, deltas, chain lengths and cursor values are symbolic, so every operation preserves count = appended - consumed for any history.",
    note="Trusted: RwLock elision (single thread), HashMap entry()/get specs, String view injectivity, assumed frame contracts of mark_topic_dirty / get_or_create_writer / Writer::{write,batch_write} (they cannot name the counter field), Block::read and count_entries_in_block_up_to contracts (unit block_rw), A-ARITH. The batch-read decrement site is covered only through the parse-region clause entries == entries_parsed; the std HashMap iteration of the recount loop is outside the unit. Counterexamples: scenario family replay/core on the real engine.",
    technique="contract-based deductive verification (Verus/Z3) of extracted real functions with whole-map postconditions; native replay",
    design="4/C15"),
 "C09": dict(
    level="proof",
    text="Verus proves should_persist's policy on the real code (StrictlyAtOnce always persists; AtLeastOnce persists exactly when the counter reaches max(persist_every,1), so fewer than persist_every consuming reads are ever un-persisted) and, on the whole extracted read_next, that no position written to the read-offset index for the tail block the reader is already on lies behind what that reader consumed in memory, that peeks never write the index, and that the persist log only grows. Quantified over all cursor states, chains, writers and persist_every values.",
    note="Decides the call-site half of C09 (what is written and when); that a written index survives the crash is C10's rename/fsync contract and is assumed here (WalIndex::set = ghost log). Batch-read persist sites and hydration after restart are not yet under contract. Lock elision (A-SEQ), Block::read contract assumed. The genuine defect found here (provisional (tail,0) persist => unbounded AtLeastOnce redelivery) is fixed by 3e0bf7e and natively replayed.",
    technique="contract-based deductive verification (Verus/Z3) of the extracted whole function with a ghost persist log; native replay",
    design="4/C09"),
 "C02": dict(
    level="proof",
    text="On the whole extracted read_next, Verus proves the frame of a peek for all states: the persisted index (ghost log and store) is untouched, entry counts are unchanged, the logical cursor position (bytes of sealed blocks before it plus offset), tail fields and the AtLeastOnce counter are unchanged, the chain is never modified, and the only blocks a read may mark as consumed lie entirely before the cursor. For batch reads, the plan region marks blocks only when it holds the stateful guard.",
    note="Covers read_next completely and the batch-read plan region's marking; the batch-read commit region (cursor commit only when checkpoint && stateful) and 'a peek returns what the next consuming read returns' are not yet contracts (the latter follows from determinism of the extracted code on an unchanged state, which is not stated as a lemma). A-SEQ, assumed callee contracts as in C15.",
    technique="contract-based deductive verification (Verus/Z3): frame conditions on the extracted whole function",
    design="4/C02"),
 "C03": dict(
    level="proof",
    text="Verus proves on the extracted batch-read regions, for every budget 0..usize::MAX, every entry size and every cursor position: the parser never returns more than 2000 entries; total payload <= budget unless exactly one entry is returned (loop invariants over the real parse loop); the planner produces a non-empty plan whenever a sealed block holds bytes the cursor has not passed, and - using the byte-level model of the entry format - its first range starts at the cursor and contains the whole first unconsumed entry (single and double header peek); planned ranges are at most 1 GiB; no arithmetic overflow in plan or parse.",
    note="Context W: bytes on disk are engine-written (packed blocks; rkyv decode returns the written metadata; read_size < 2^40). A-IO (positional reads inside the preallocated file are complete), A-ARITH (64-bit usize). The final step 'first range contains the first entry => parser returns >= 1 entry' (spine lemma across the io region) is not yet mechanised; the tail-only progress case is not under contract. Three genuine defects found here are fixed (budget 0: d45772d; overflow near usize::MAX: e20c15e; empty payloads: c656d4a) and natively replayed.",
    technique="contract-based deductive verification (Verus/Z3) of mechanically cut statement regions with loop invariants and a byte-level format model; native replay",
    design="4/C03"),
 "C01": dict(
    level="proof",
    text="Verus proves the ordering skeleton of consuming reads on the real code: planned ranges follow chain order, one per block, inside the block, the tail last; the parser only looks at range k after every earlier range was consumed to the end of its block (no gap can be jumped) and returns every entry it counts; read_next keeps the cursor well-formed, never modifies the chain and terminates; checksum64 equals the FNV-1a specification for inputs of any length.",
    note="This is the mechanism half of C01 (no skip / no reorder across ranges and blocks). Byte-identity of returned payloads to appended payloads needs the Block::write/read round-trip and the Writer units (not yet under contract) and the history lemma over the abstract log is not mechanised. Two genuine skip defects found here are fixed (ba1f615, e20c15e) and natively replayed; scenario family replay/core compares the real engine with the abstract log.",
    technique="contract-based deductive verification (Verus/Z3) of extracted regions/functions; native replay",
    design="4/C01"),
 "C12": dict(
    level="proof",
    text="All tracker-table functions of allocator.rs (register_block, set_checkpointed_true, inc/add/lock/unlock/set_fully_allocated, get_state_snapshot, flush_check) and both allocation paths (get_next_available_block, alloc_block) are extracted with the static tables turned into an explicit Globals and proved against exact state-transformer contracts plus the counting invariant: per file, checkpoint counter = number of distinct checkpointed blocks registered for it, total = number of registered blocks. From it Verus proves that a path is sent to the reclaimer only when every block ever registered for that file is checkpointed, that allocation registers each block under its own file, and (on read_next and the batch-read planner) that only blocks lying entirely before the cursor are ever marked. Holds for any number of files, blocks and calls, in any order.",
    note="Trusted: the statics/channel as one struct (R7), atomics as plain fields under A-SEQ, HashMap specs, String identity axiom; assumptions: fewer than 65535 blocks per file, allocator ids fresh in the process (this is exactly what fails across instances - see C13). Not covered: that 'cursor past the block' implies 'durably consumed' in AtLeastOnce mode, the positional cursor after a file was deleted (restart clause), background.rs deletion loop. Genuine defect fixed: non-idempotent counter (0009bb3).",
    technique="contract-based deductive verification (Verus/Z3): data-structure invariant with set cardinalities over extracted real functions",
    design="4/C12"),
 "C13": dict(
    level="proof",
    text="Same units as C14 (instance roots are distinct directories strictly inside their data dirs whenever sanitised keys or data dirs differ) and C12 (tracker tables). The obligation that register_block binds the given id to the given path fails on the real code: ids restart at 1 in every instance while the table is process-global. This is a genuine isolation defect (another namespace's consumption deletes this namespace's unconsumed file); it is reproduced natively by replay/core c13_family and listed in known_findings.json. Every other tracker/allocator obligation is discharged.",
    note="The claim is: the bookkeeping half of C13 is decided (violated, site-keyed finding), the directory half is proved. Not covered: the first-instance-wins global fsync schedule (GLOBAL_FSYNC_SCHEDULE.set result ignored), SharedMmapKeeper sharing, interleavings of instance operations beyond atomic steps.",
    technique="contract-based deductive verification (Verus/Z3) of extracted real functions; native replay of the failing history",
    design="4/C13"),
 "C24": dict(
    level="proof",
    text="handle_connection and send_response of client.rs are extracted (async/await removed) and verified over a ghost byte stream for ALL client byte streams: send_response writes exactly one length-prefixed frame; the loop invariant says the reader always stands on a frame boundary of the input and that the output consists of exactly one response frame per consumed input frame, in order (one inductive definition of 'frame' = 4-byte LE length + that many bytes, used for both directions); a clean return only happens when fewer than 4 bytes remain after the last whole frame; only lengths 0 or > 64 KiB are rejected unread. The one failing obligation - the reader is off the frame boundary after rejecting an oversized header - is a genuine defect, replayed natively (real client.rs over an in-memory tokio shim: 3 frames -> 16386 responses) and listed as a known finding.",
    note="Trusted: tokio read_exact/write_all semantics on the ghost stream, from_utf8/trim_end/as_bytes stubs (UTF-8 length uninterpreted; responses assumed to fit u32), R13 (one task per connection). handle_command is an arbitrary function in this unit, so the PUT/GET payload round trip is not yet under contract (the native family checks it on a small grid only).",
    technique="contract-based deductive verification (Verus/Z3): loop invariant over a ghost stream on the extracted real function; native replay through a shimmed build of the real file",
    design="4/C24"),
 "C20": dict(
    level="proof",
    text="Metadata::snapshot and Metadata::restore are extracted and proved: snapshot returns exactly the encoding of the current state; restore installs exactly the decoded state or, on a decode error, changes nothing; with the bincode round-trip law the theorem 'restore(snapshot(s)) reproduces s' is then discharged for all states. The law's side condition (symmetric serde field attributes on ClusterState/TopicState) is computed from the source on every run and is itself an obligation. For the Raft adapter, the region of MemStateMachine::build_snapshot that produces the snapshot bytes is extracted; its obligation 'the bytes are the application state machine's snapshot' fails - a genuine defect (it serialises an always-empty side map), listed as a known finding.",
    note="Trusted: bincode as enc/dec with the round-trip law (A-BINCODE), RwLock elision (try_read/try_write modelled as possibly failing), derive(Default). Not executable offline; the adapter finding has no executed counterexample. install_snapshot and 'stays equal after the same subsequent commands' (determinism of apply, C18's unit) are not separate obligations.",
    technique="contract-based deductive verification (Verus/Z3) of extracted real functions / regions",
    design="4/C20"),
}

NOT_APPLICABLE = {
 "C19": "multi-node Raft agreement is a protocol-level inductive invariant of the vendored async openraft core over several processes; no function-level contract carries it, the code is outside Verus' and Kani's reach and cannot be built offline",
 "C22": "exactly-once delivery over concurrent clients, rollovers and lease sync across nodes is a schedule/history property of tokio tasks and Raft timing with no per-function contract formulation; crate not buildable offline",
 "C23": "relates a Raft-apply event in one task to later bucket writes in another task; no common caller to put a contract on; crate not buildable offline",
}

NOT_REACHED = "not reached yet: contracts for this property's functions are still being built (see DESIGN.md section 7); no check is claimed rather than a vacuous one"
