# One entry per property: what is claimed, by which method, with which trusted base.
# tools/gen_manifest.py turns this into MANIFEST.json (kept valid at all times).
CLAIMS = {
 "C14": dict(
    level="proof",
    text="Verus discharges, for all key strings of any length, contracts on the real sanitize_namespace (incl. its lifted closure) and on WalPathManager::{for_key,with_data_dir,default} extracted from /repo on every run: the sanitised key is a single normal path component (non-empty, no '/', no NUL, not '.' or '..') and the instance root is the data dir plus exactly that component. Unbounded in key length and content, which the two sampled keys of the suite cannot reach.",
    note="Trusted: std char/string semantics as specified in specs/prelude/strings.rs (is_ascii_alphanumeric, trim_matches, format!{:x}, chars().map().collect()), the PathBuf component model in specs/prelude/paths.rs, arbitrary-valued stubs for env/thread-local lookups; extraction edits R1/R8/R9 as logged in the evidence. WalrusBuilder::build and create_new_file/index_path are not yet under contract.",
    technique="contract-based deductive verification (Verus/Z3) of mechanically extracted real functions",
    design="4/C14"),
}

NOT_APPLICABLE = {
 "C19": "multi-node Raft agreement is a protocol-level inductive invariant of the vendored async openraft core over several processes; no function-level contract carries it, the code is outside Verus' and Kani's reach and cannot be built offline",
 "C22": "exactly-once delivery over concurrent clients, rollovers and lease sync across nodes is a schedule/history property of tokio tasks and Raft timing with no per-function contract formulation; crate not buildable offline",
 "C23": "relates a Raft-apply event in one task to later bucket writes in another task; no common caller to put a contract on; crate not buildable offline",
}

NOT_REACHED = "not reached yet: contracts for this property's functions are still being built (see DESIGN.md section 7); no check is claimed rather than a vacuous one"
