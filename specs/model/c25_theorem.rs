// The property itself, as a theorem over the two contracts (callers see only the contracts).
fn c25_roundtrip(topic: &str, segment: u64) -> (r: Option<(String, u64)>)
    ensures
        r matches Some(p) && p.0@ == topic@ && p.1 == segment, //@L C25:theorem_decode_of_encode_is_identity
{
    let k = wal_key(topic, segment);
    parse_wal_key(k.as_str())
}

proof fn c25_one_to_one(t1: Seq<char>, n1: u64, t2: Seq<char>, n2: u64)
    ensures
        key_spec(t1, n1) == key_spec(t2, n2) ==> t1 == t2 && n1 == n2, //@L C25:theorem_keys_one_to_one
{
    if key_spec(t1, n1) == key_spec(t2, n2) { lemma_key_injective(t1, n1, t2, n2); }
}
