// Byte-level model of the on-disk entry format (DESIGN 3.4).  All definitions are over a byte sequence `d` (the contents
// of one WAL file); read-only units instantiate d with the fixed `disk(file)`, writer units with the ghost `Sys`.
// Entry at absolute file offset a:  [len_lo, len_hi, rkyv(Metadata) (len bytes), zero padding to 256] ++ payload.
pub open spec fn meta_len_of(b0: u8, b1: u8) -> usize { (b0 as usize) | ((b1 as usize) << 8) }

pub open spec fn hdr_meta_d(d: Seq<u8>, a: int) -> Metadata {
    spec_decode(d.subrange(a + 2, a + 2 + meta_len_of(d[a], d[a + 1])))
}
pub open spec fn entry_size_d(d: Seq<u8>, a: int) -> int { hdr_meta_d(d, a).read_size as int }

pub open spec fn entry_ok_d(d: Seq<u8>, a: int) -> bool {
    &&& 0 <= a && a + 256 <= d.len()
    &&& 1 <= meta_len_of(d[a], d[a + 1]) <= 254
    &&& a + 256 + entry_size_d(d, a) <= d.len()
    &&& fnv1a(d.subrange(a + 256, a + 256 + entry_size_d(d, a))) == hdr_meta_d(d, a).checksum
}
pub open spec fn entry_end_d(d: Seq<u8>, a: int) -> int { a + 256 + entry_size_d(d, a) }

/// entries tile the byte range [a, b) exactly
pub open spec fn packed_d(d: Seq<u8>, a: int, b: int) -> bool
    decreases b - a
{
    if a >= b { a == b } else { entry_ok_d(d, a) && entry_end_d(d, a) <= b && packed_d(d, entry_end_d(d, a), b) }
}

/// the payloads of the entries tiling [a, b)
pub open spec fn payloads_d(d: Seq<u8>, a: int, b: int) -> Seq<Seq<u8>>
    decreases b - a
{
    if a >= b || !entry_ok_d(d, a) || entry_end_d(d, a) > b { Seq::empty() }
    else { seq![d.subrange(a + 256, entry_end_d(d, a))] + payloads_d(d, entry_end_d(d, a), b) }
}

pub open spec fn fnv1a_step(h: u64, b: u8) -> u64 { ((h ^ (b as u64)) as int * 0x00000100000001B3int % 0x1_0000_0000_0000_0000int) as u64 }
pub open spec fn fnv1a(s: Seq<u8>) -> u64
    decreases s.len()
{
    if s.len() == 0 { 0xcbf29ce484222325u64 } else { fnv1a_step(fnv1a(s.drop_last()), s.last()) }
}

