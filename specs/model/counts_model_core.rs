// C15 model: the count table; a topic without an entry counts as 0 (get_topic_entry_count returns 0 for a missing key).
// everything of Walrus that the counter code cannot name: writers, reader chains, clean/dirty tracker ...

pub open spec fn count_of(m: Map<String, u64>, t: Seq<char>) -> u64 {
    if m.contains_key(string_of(t)) { m[string_of(t)] } else { 0 }
}

pub open spec fn sat_add(a: u64, b: u64) -> u64 { if a + b > u64::MAX { u64::MAX } else { (a + b) as u64 } }
pub open spec fn sat_sub(a: u64, b: u64) -> u64 { if a < b { 0 } else { (a - b) as u64 } }

pub open spec fn counts_after_inc(m: Map<String, u64>, t: Seq<char>, d: u64) -> Map<String, u64> {
    if d == 0 { m } else { m.insert(string_of(t), sat_add(count_of(m, t), d)) }
}
pub open spec fn counts_after_dec(m: Map<String, u64>, t: Seq<char>, d: u64) -> Map<String, u64> {
    if d == 0 { m } else { m.insert(string_of(t), sat_sub(count_of(m, t), d)) }
}
