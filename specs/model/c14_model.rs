// C14 model: character classes and the abstract meaning of the lifted closure.
pub open spec fn allowed_char(c: char) -> bool {
    is_ascii_alnum(c) || c == '-' || c == '_' || c == '.'
}

pub open spec fn sanitize_char_spec(c: char) -> char {
    if allowed_char(c) { c } else { '_' }
}

pub open spec fn all_allowed(s: Seq<char>) -> bool {
    forall|i: int| 0 <= i < s.len() ==> allowed_char(#[trigger] s[i])
}

pub proof fn lemma_ns_hex_safe(s: Seq<char>, x: u64)
    requires s == seq!['n', 's', '_'] + hex_digits_of(x)
    ensures all_allowed(s), safe_component(s), !all_chars(s, '_'), !all_chars(s, '.'), s.len() >= 4,
{
    axiom_hex_digits(x);
    let h = hex_digits_of(x);
    assert forall|i: int| 0 <= i < s.len() implies allowed_char(#[trigger] s[i]) by {
        if i >= 3 { assert(s[i] == h[i - 3]); assert(is_lower_hex_digit(h[i - 3])); }
    }
    assert(s[0] == 'n');
    assert(s.len() >= 4);
}

pub broadcast proof fn lemma_allowed_safe(s: Seq<char>)
    requires #[trigger] all_allowed(s), s.len() >= 1,
    ensures !all_chars(s, '.') ==> safe_component(s),
{
    assert forall|i: int| 0 <= i < s.len() implies #[trigger] s[i] != '/' && s[i] != '\0' by { assert(allowed_char(s[i])); }
    if s == seq!['.'] { assert(all_chars(s, '.')); }
    if s == seq!['.', '.'] { assert(all_chars(s, '.')); }
}

pub proof fn lemma_mapped_allowed(k: Seq<char>, s: Seq<char>)
    requires s.len() == k.len(), forall|i: int| 0 <= i < k.len() ==> #[trigger] s[i] == sanitize_char_spec(k[i]),
    ensures all_allowed(s), all_allowed(k) ==> s == k, (s.len() == 0 ==> all_chars(s, '_')),
{
    assert forall|i: int| 0 <= i < s.len() implies allowed_char(#[trigger] s[i]) by { assert(s[i] == sanitize_char_spec(k[i])); }
    if all_allowed(k) {
        assert forall|i: int| 0 <= i < s.len() implies s[i] == k[i] by { assert(allowed_char(k[i])); }
        assert(s =~= k);
    }
}

pub broadcast proof fn lemma_push_inside(base: Seq<Seq<char>>, c: Seq<char>)
    requires safe_component(c)
    ensures strictly_inside(#[trigger] path_push_any(base, c), base), path_push_any(base, c).len() == base.len() + 1,
{
    axiom_path_push_safe(base, c);
    let p = base.push(c);
    assert(p.subrange(0, base.len() as int) =~= base);
}

pub proof fn lemma_ns_hex_safe_ex(s: Seq<char>)
    requires exists|x: u64| s == seq!['n', 's', '_'] + #[trigger] hex_digits_of(x)
    ensures all_allowed(s), safe_component(s), !all_chars(s, '_'), !all_chars(s, '.'),
{
    let x = choose|x: u64| s == seq!['n', 's', '_'] + #[trigger] hex_digits_of(x);
    lemma_ns_hex_safe(s, x);
}

pub broadcast proof fn lemma_trim_allowed(r: Seq<char>, s: Seq<char>, c: char)
    requires #[trigger] is_trim_of(r, s, c), all_allowed(s)
    ensures all_allowed(r), (r.len() == s.len() ==> r == s)
{
    let (a, b) = choose|a: int, b: int| 0 <= a <= b <= s.len() && #[trigger] s.subrange(a, b) == r
        && (forall|i: int| 0 <= i < a ==> s[i] == c) && (forall|i: int| b <= i < s.len() ==> s[i] == c)
        && (a < b ==> s[a] != c && s[b - 1] != c);
    assert forall|i: int| 0 <= i < r.len() implies allowed_char(#[trigger] r[i]) by { assert(r[i] == s[a + i]); }
    if r.len() == s.len() { assert(a == 0 && b == s.len()); assert(s.subrange(0, s.len() as int) =~= s); }
}
