// clean-marker file (topic_clean.rs persist_map) over the power-loss model
pub uninterp spec fn markers_bytes(m: Map<String, CleanMarkerRecord>) -> Seq<u8>;
#[verifier::external_body]
pub fn rkyv_to_bytes_markers(m: &HashMap<String, CleanMarkerRecord>) -> (r: Result<Vec<u8>, ()>) ensures r matches Ok(b) ==> b@ == markers_bytes(m@) { unimplemented!() }
#[verifier::external_body]
pub fn tmp_name_str(path: &str) -> (r: String) ensures r@ == path@ + seq!['.', 't', 'm', 'p'] { unimplemented!() }
#[verifier::external_body]
pub fn fs_rename_str(fs: &mut Fs, from: &String, to: &str) -> (r: IoResult<()>)
    requires
        // "each unsynced write may or may not be kept": a rename can reach the disk before the data of the file it moves, so the
        // contents of the source must already be durable (fsync before rename) - otherwise a power loss may leave the target name
        // on a file without its contents
        old(fs).vol_dir@.contains_key(from@) ==> (old(fs).dur_data@.contains_key(old(fs).vol_dir@[from@]) && old(fs).vol_data@.contains_key(old(fs).vol_dir@[from@])
            && old(fs).dur_data@[old(fs).vol_dir@[from@]] == old(fs).vol_data@[old(fs).vol_dir@[from@]]),
    ensures
        final(fs).dur_dir == old(fs).dur_dir, final(fs).vol_data == old(fs).vol_data, final(fs).dur_data == old(fs).dur_data,
        r is Ok ==> old(fs).vol_dir@.contains_key(from@) && final(fs).vol_dir@ == old(fs).vol_dir@.remove(from@).insert(to@, old(fs).vol_dir@[from@]),
        r is Err ==> final(fs).vol_dir == old(fs).vol_dir,
{ unimplemented!() }
