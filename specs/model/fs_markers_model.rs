// clean-marker file (topic_clean.rs persist_map) over the power-loss model
pub uninterp spec fn markers_bytes(m: Map<String, CleanMarkerRecord>) -> Seq<u8>;
#[verifier::external_body]
pub fn rkyv_to_bytes_markers(m: &HashMap<String, CleanMarkerRecord>) -> (r: Result<Vec<u8>, ()>) ensures r matches Ok(b) ==> b@ == markers_bytes(m@) { unimplemented!() }
#[verifier::external_body]
pub fn tmp_name_str(path: &str) -> (r: String) ensures r@ == path@ + seq!['.', 't', 'm', 'p'] { unimplemented!() }
#[verifier::external_body]
pub fn fs_rename_str(fs: &mut Fs, from: &String, to: &str) -> (r: IoResult<()>)
    ensures
        final(fs).dur_dir == old(fs).dur_dir, final(fs).vol_data == old(fs).vol_data, final(fs).dur_data == old(fs).dur_data,
        r is Ok ==> old(fs).vol_dir@.contains_key(from@) && final(fs).vol_dir@ == old(fs).vol_dir@.remove(from@).insert(to@, old(fs).vol_dir@[from@]),
        r is Err ==> final(fs).vol_dir == old(fs).vol_dir,
{ unimplemented!() }
