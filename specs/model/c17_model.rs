// C17 model. R15/R16: the Arc<TopicCleanState> cells are the values of the tracker's map; the persister thread is
// reached through a channel, modelled as the ghost log of topics queued for persisting. The marker file is the ghost
// field `file` of the store (what CleanMarkerStore::new_in reads back at the next open), `failed` records an I/O error.
pub type IoResult<T> = Result<T, IoError>;
pub struct SenderH { pub queued: Ghost<Seq<Seq<char>>> }
impl SenderH {
    #[verifier::external_body]
    pub fn send(&mut self, topic: String) -> (r: Result<(), ()>) ensures final(self).queued@ == old(self).queued@.push(topic@) { unimplemented!() }
    // a bounded / non-blocking send may drop the message
    #[verifier::external_body]
    pub fn try_send(&mut self, topic: String) -> (r: Result<(), ()>)
        ensures r is Ok ==> final(self).queued@ == old(self).queued@.push(topic@), r is Err ==> final(self).queued@ == old(self).queued@
    { unimplemented!() }
}
pub struct JoinH { pub x: u8 }
impl JoinH {
    // SEQ: once joined the persister thread is gone; nothing else to say in a single-thread model
    #[verifier::external_body]
    pub fn join(self) -> (r: Result<(), ()>) { unimplemented!() }
}
pub struct PersisterSlot { pub x: u8 }
impl PersisterSlot {
    #[verifier::external_body]
    pub fn vx_take(&mut self) -> (r: Option<JoinH>) { unimplemented!() }
}
pub struct TopicCleanTracker { pub states: HashMap<String, TopicCleanState>, pub store: CleanMarkerStore, pub persist_tx: SenderH, pub stop: bool, pub persister: PersisterSlot }
pub struct Walrus { pub topic_clean_tracker: TopicCleanTracker }

pub open spec fn default_state(s: TopicCleanState) -> bool { s.generation == 0 && s.is_clean }
pub open spec fn snap(s: TopicCleanState) -> CleanMarkerRecord { CleanMarkerRecord { generation: s.generation, is_clean: s.is_clean } }

/// what the tracker reports for a topic
pub open spec fn reported_clean(m: Map<String, TopicCleanState>, t: Seq<char>) -> bool {
    if m.contains_key(string_of(t)) { m[string_of(t)].is_clean } else { true }
}
/// what a freshly opened instance reports for a topic, given the marker file it hydrates from
pub open spec fn reported_after_reopen(file: Map<String, CleanMarkerRecord>, t: Seq<char>) -> bool {
    if file.contains_key(string_of(t)) { file[string_of(t)].is_clean } else { true }
}
/// every topic in the store is known to the tracker (established by hydrate at open, kept by every operation)
pub open spec fn tracker_wf(t: TopicCleanTracker) -> bool {
    (forall|k: String| t.store.store@.contains_key(k) ==> t.states@.contains_key(k))
    // unless a write failed, the marker file is what the store holds (established by CleanMarkerStore::new_in, kept by persist_updates)
    && (t.store.failed@ || t.store.file@ == t.store.store@)
}

pub open spec fn apply_updates(m: Map<String, CleanMarkerRecord>, u: Seq<(String, CleanMarkerRecord)>) -> Map<String, CleanMarkerRecord>
    decreases u.len()
{
    if u.len() == 0 { m } else { apply_updates(m, u.drop_last()).insert(u.last().0, u.last().1) }
}

// rkyv serialise + write tmp + fsync + rename (CleanMarkerStore::persist_map): assumed contract (A-FS)
#[verifier::external_body]
pub fn persist_map(path: &String, map: &HashMap<String, CleanMarkerRecord>, file: &mut Ghost<Map<String, CleanMarkerRecord>>, failed: &mut Ghost<bool>) -> (r: IoResult<()>)
    ensures r is Ok ==> final(file)@ == map@ && final(failed)@ == old(failed)@,
            r is Err ==> final(file)@ == old(file)@ && final(failed)@,
{ unimplemented!() }

// `guard.iter().map(|(topic, state)| (topic.clone(), state.snapshot())).collect::<Vec<_>>()` (R8: iterator chain over the
// std HashMap -> assumed contract): one (topic, snapshot) pair per tracked topic.
#[verifier::external_body]
pub fn states_snapshot_vec(states: &HashMap<String, TopicCleanState>) -> (v: Vec<(String, CleanMarkerRecord)>)
    ensures snapshot_of(states@, v@),
{ unimplemented!() }

// `for (topic, record) in snapshot` over a HashMap taken by value (R8: std iterator -> assumed contract): the pairs in some order
#[verifier::external_body]
pub fn hashmap_into_vec(m: HashMap<String, CleanMarkerRecord>) -> (v: Vec<(String, CleanMarkerRecord)>)
    ensures pairs_of(m@, v@),
{ unimplemented!() }

pub proof fn lemma_apply_distinct(m: Map<String, CleanMarkerRecord>, u: Seq<(String, CleanMarkerRecord)>, k: String)
    requires forall|i: int, j: int| 0 <= i < j < u.len() ==> u[i].0 != u[j].0,
    ensures
        (exists|i: int| 0 <= i < u.len() && #[trigger] u[i].0 == k) ==> apply_updates(m, u).contains_key(k),
        forall|i: int| 0 <= i < u.len() && #[trigger] u[i].0 == k ==> apply_updates(m, u)[k] == u[i].1,
        !(exists|i: int| 0 <= i < u.len() && #[trigger] u[i].0 == k) ==> (apply_updates(m, u).contains_key(k) == m.contains_key(k)) && (m.contains_key(k) ==> apply_updates(m, u)[k] == m[k]),
    decreases u.len()
{
    if u.len() > 0 {
        let p = u.drop_last();
        lemma_apply_distinct(m, p, k);
        assert(forall|i: int| 0 <= i < p.len() ==> p[i] == u[i]);
        if u.last().0 == k {
            assert(u[u.len() - 1].0 == k);
        } else {
            if exists|i: int| 0 <= i < u.len() && #[trigger] u[i].0 == k {
                let i = choose|i: int| 0 <= i < u.len() && #[trigger] u[i].0 == k;
                assert(i < p.len() && p[i].0 == k);
            }
        }
    }
}

// #[derive(Clone)] on a plain-data struct is a field-wise copy (A-STD)
#[verifier::external_body]
pub fn derived_clone<T: Clone>(x: &T) -> (r: T) ensures r == *x { x.clone() }

pub open spec fn snapshot_of(states: Map<String, TopicCleanState>, v: Seq<(String, CleanMarkerRecord)>) -> bool {
    &&& forall|i: int| 0 <= i < v.len() ==> states.contains_key(#[trigger] v[i].0) && v[i].1 == snap(states[v[i].0])
    &&& forall|k: String| states.contains_key(k) ==> exists|i: int| 0 <= i < v.len() && #[trigger] v[i].0 == k
    &&& forall|i: int, j: int| 0 <= i < j < v.len() ==> v[i].0 != v[j].0
}

/// Writing one snapshot per tracked topic over a store whose topics are all tracked leaves exactly the tracked state.
pub proof fn lemma_flush(states: Map<String, TopicCleanState>, s0: Map<String, CleanMarkerRecord>, v: Seq<(String, CleanMarkerRecord)>, file: Map<String, CleanMarkerRecord>)
    requires
        snapshot_of(states, v),
        forall|k: String| s0.contains_key(k) ==> states.contains_key(k),
        file == apply_updates(s0, v),
    ensures
        forall|k: String| #[trigger] states.contains_key(k) ==> file.contains_key(k) && file[k] == snap(states[k]),
        forall|k: String| #[trigger] file.contains_key(k) ==> states.contains_key(k),
        forall|t: Seq<char>| #[trigger] reported_after_reopen(file, t) == reported_clean(states, t),
{
    assert forall|k: String| (#[trigger] states.contains_key(k) ==> file.contains_key(k) && file[k] == snap(states[k])) && (file.contains_key(k) ==> states.contains_key(k)) by {
        lemma_apply_distinct(s0, v, k);
        if states.contains_key(k) {
            let i = choose|i: int| 0 <= i < v.len() && #[trigger] v[i].0 == k;
            assert(v[i].0 == k && v[i].1 == snap(states[v[i].0]));
        } else if file.contains_key(k) {
            if exists|i: int| 0 <= i < v.len() && #[trigger] v[i].0 == k {
                let i = choose|i: int| 0 <= i < v.len() && #[trigger] v[i].0 == k;
                assert(states.contains_key(v[i].0));
            }
        }
    }
    assert forall|t: Seq<char>| #[trigger] reported_after_reopen(file, t) == reported_clean(states, t) by {
        let k = string_of(t);
        assert(states.contains_key(k) ==> file.contains_key(k) && file[k] == snap(states[k]));
        assert(file.contains_key(k) ==> states.contains_key(k));
    }
}

pub open spec fn pairs_of(m: Map<String, CleanMarkerRecord>, v: Seq<(String, CleanMarkerRecord)>) -> bool {
    &&& forall|i: int| 0 <= i < v.len() ==> m.contains_key(#[trigger] v[i].0) && v[i].1 == m[v[i].0]
    &&& forall|k: String| m.contains_key(k) ==> exists|i: int| 0 <= i < v.len() && #[trigger] v[i].0 == k
    &&& forall|i: int, j: int| 0 <= i < j < v.len() ==> v[i].0 != v[j].0
}

pub proof fn lemma_hydrate_empty(st0: Map<String, TopicCleanState>, file: Map<String, CleanMarkerRecord>)
    ensures file.len() == 0 && file.dom().finite() && st0.len() == 0 && st0.dom().finite() ==> forall|t: Seq<char>| reported_clean(st0, t) == reported_after_reopen(file, t)
{
    if file.len() == 0 && file.dom().finite() && st0.len() == 0 && st0.dom().finite() {
        assert(file.dom() =~= Set::empty()) by { vstd::set_lib::lemma_set_empty_equivalency_len(file.dom()); }
        assert(st0.dom() =~= Set::empty()) by { vstd::set_lib::lemma_set_empty_equivalency_len(st0.dom()); }
        assert forall|t: Seq<char>| reported_clean(st0, t) == reported_after_reopen(file, t) by {
            assert(!st0.dom().contains(string_of(t)));
            assert(!file.dom().contains(string_of(t)));
        }
    }
}

pub proof fn lemma_hydrated(st0: Map<String, TopicCleanState>, file: Map<String, CleanMarkerRecord>, v: Seq<(String, CleanMarkerRecord)>, st: Map<String, TopicCleanState>)
    requires
        pairs_of(file, v),
        forall|j: int| 0 <= j < v.len() ==> st.contains_key(#[trigger] v[j].0) && snap(st[v[j].0]) == v[j].1,
        forall|k: String| #[trigger] st.contains_key(k) ==> st0.contains_key(k) || exists|j: int| 0 <= j < v.len() && #[trigger] v[j].0 == k,
    ensures
        st0.len() == 0 && st0.dom().finite() ==> (forall|k: String| #[trigger] file.contains_key(k) ==> st.contains_key(k) && snap(st[k]) == file[k])
            && (forall|k: String| #[trigger] st.contains_key(k) ==> file.contains_key(k))
            && (forall|t: Seq<char>| reported_clean(st, t) == reported_after_reopen(file, t)),
{
    if st0.len() == 0 && st0.dom().finite() {
        assert(st0.dom() =~= Set::empty()) by { vstd::set_lib::lemma_set_empty_equivalency_len(st0.dom()); }
        assert forall|k: String| (#[trigger] file.contains_key(k) ==> st.contains_key(k) && snap(st[k]) == file[k]) by {
            if file.contains_key(k) {
                let i = choose|i: int| 0 <= i < v.len() && #[trigger] v[i].0 == k;
                assert(st.contains_key(v[i].0) && snap(st[v[i].0]) == v[i].1 && v[i].1 == file[v[i].0]);
            }
        }
        assert forall|k: String| #[trigger] st.contains_key(k) implies file.contains_key(k) by {
            assert(!st0.dom().contains(k));
            let j = choose|j: int| 0 <= j < v.len() && #[trigger] v[j].0 == k;
            assert(file.contains_key(v[j].0));
        }
        assert forall|t: Seq<char>| reported_clean(st, t) == reported_after_reopen(file, t) by {
            let k = string_of(t);
            assert(file.contains_key(k) ==> st.contains_key(k) && snap(st[k]) == file[k]);
            assert(st.contains_key(k) ==> file.contains_key(k));
        }
    }
}

/// a map that differs from `m0` only at the key of `topic` reports every other topic as before
pub proof fn lemma_insert_frame(m0: Map<String, TopicCleanState>, m1: Map<String, TopicCleanState>, topic: Seq<char>)
    requires exists|v: TopicCleanState| m1 == m0.insert(string_of(topic), v),
    ensures forall|t: Seq<char>| t != topic ==> #[trigger] reported_clean(m1, t) == reported_clean(m0, t),
            forall|k: String| m0.contains_key(k) ==> m1.contains_key(k),
{
    assert forall|t: Seq<char>| t != topic implies #[trigger] reported_clean(m1, t) == reported_clean(m0, t) by {
        axiom_string_of(t); axiom_string_of(topic);
        assert(string_of(t) != string_of(topic));
    }
}
