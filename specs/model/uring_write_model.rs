// io_uring WRITE side, phases 1-2 of submit_batch_via_io_uring: one write operation per plan element (R10).
pub struct FdG { pub file: int }
pub struct WriteOp { pub file: int, pub bytes: Ghost<Seq<u8>>, pub len: u32, pub offset: u64, pub ud: u64 }
pub struct RingW { pub subs: Ghost<Seq<WriteOp>> }
#[verifier::external_body]
pub fn mmap_fd(m: &MmapH) -> (r: Option<FdG>) ensures r matches Some(f) ==> f.file == m.file { unimplemented!() }
// io_uring::opcode::Write::new(fd, combined.as_ptr(), combined.len() as u32).offset(o).build().user_data(u): the operation
// writes the CURRENT contents of `combined` (A-URING-BUF: the buffer is kept alive and unchanged in `buffers` until completion)
#[verifier::external_body]
pub fn write_op_new(fd: FdG, buf: &Vec<u8>, len: u32, offset: u64, ud: u64) -> (r: WriteOp)
    ensures r.file == fd.file && r.bytes@ == buf@ && r.len == len && r.offset == offset && r.ud == ud
{ unimplemented!() }
impl RingW {
    #[verifier::external_body]
    pub fn push(&mut self, op: &WriteOp) -> (r: Result<(), ()>)
        ensures r is Ok ==> final(self).subs@ == old(self).subs@.push(*op), r is Err ==> final(self).subs == old(self).subs
    { unimplemented!() }
}
pub struct BatchRevertInfo { pub original_offset: u64, pub allocated_block_ids: Vec<u64> }
pub struct GlobalsW { pub unlocked: Ghost<Seq<u64>> }
impl GlobalsW {
    #[verifier::external_body]
    pub fn set_block_unlocked(&mut self, id: usize) ensures final(self).unlocked@ == old(self).unlocked@.push(id as u64) { unimplemented!() }
}
/// the 256-byte header Block::write lays out for this metadata image (2-byte LE length, the image, zero padding)
pub open spec fn header_of(mb: Seq<u8>, hdr: Seq<u8>) -> bool {
    hdr.len() == 256 && 1 <= mb.len() <= 254 && meta_len_of(hdr[0], hdr[1]) == mb.len() && hdr.subrange(2, 2 + mb.len() as int) == mb
        && forall|j: int| 2 + mb.len() <= j < 256 ==> #[trigger] hdr[j] == 0u8
}
pub open spec fn meta_for(data: Seq<u8>, col: Seq<char>, nbs: u64, m: Metadata) -> bool {
    m.read_size == data.len() && m.owned_by@ == col && m.next_block_start == nbs && m.checksum == fnv1a(data)
}
/// operation k writes, at the planned position of entry k, exactly the bytes Block::write would write there
pub open spec fn op_matches(op: WriteOp, p: (Block, u64, usize), data: Seq<u8>, col: Seq<char>) -> bool {
    &&& op.file == p.0.mmap.file && op.offset == p.0.offset + p.1 && op.ud == p.2 && op.len == 256 + data.len() && op.bytes@.len() == 256 + data.len()
    &&& op.bytes@.subrange(256, 256 + data.len() as int) == data
    &&& exists|m: Metadata| meta_for(data, col, (p.0.offset + p.0.limit) as u64, m) && header_of(spec_meta_bytes(m), op.bytes@.subrange(0, 256))
}
