// Power-loss file system model (C10, DESIGN 3.4): a power loss keeps only what was explicitly synced.
//   vol_dir / dur_dir : path -> inode   (directory entries: volatile view / what survives a power loss)
//   vol_data / dur_data: inode -> bytes (file contents: volatile view / synced contents)
// One directory (the instance root); paths are character sequences.  A-FS: POSIX + Linux semantics as stated per call.
pub type IoResult<T> = Result<T, IoError>;
pub struct Fs {
    pub vol_dir: Ghost<Map<Seq<char>, int>>, pub dur_dir: Ghost<Map<Seq<char>, int>>,
    pub vol_data: Ghost<Map<int, Seq<u8>>>, pub dur_data: Ghost<Map<int, Seq<u8>>>,
}
/// what `path` holds after a power loss
pub open spec fn after_power_loss(fs: Fs, path: Seq<char>) -> Option<Seq<u8>> {
    if fs.dur_dir@.contains_key(path) && fs.dur_data@.contains_key(fs.dur_dir@[path]) { Some(fs.dur_data@[fs.dur_dir@[path]]) } else { None }
}
pub struct FileH { pub inode: int }
// std::fs::write(path, bytes): create or truncate + write (volatile only)
#[verifier::external_body]
pub fn fs_write(fs: &mut Fs, path: &String, bytes: &[u8]) -> (r: IoResult<()>)
    ensures
        final(fs).dur_dir == old(fs).dur_dir, final(fs).dur_data == old(fs).dur_data,
        r is Ok ==> final(fs).vol_dir@.contains_key(path@) && final(fs).vol_data@.contains_key(final(fs).vol_dir@[path@]) && final(fs).vol_data@[final(fs).vol_dir@[path@]] == bytes@
            // a file that already exists keeps its inode, a new one gets an inode no directory entry (volatile or durable) refers to
            && (old(fs).vol_dir@.contains_key(path@) ==> final(fs).vol_dir@ == old(fs).vol_dir@)
            && (!old(fs).vol_dir@.contains_key(path@) ==> final(fs).vol_dir@ == old(fs).vol_dir@.insert(path@, final(fs).vol_dir@[path@])
                    && (forall|p: Seq<char>| #[trigger] old(fs).vol_dir@.contains_key(p) ==> old(fs).vol_dir@[p] != final(fs).vol_dir@[path@])
                    && (forall|p: Seq<char>| #[trigger] old(fs).dur_dir@.contains_key(p) ==> old(fs).dur_dir@[p] != final(fs).vol_dir@[path@]))
            && (forall|i: int| i != final(fs).vol_dir@[path@] ==> (final(fs).vol_data@.contains_key(i) == old(fs).vol_data@.contains_key(i)) && (old(fs).vol_data@.contains_key(i) ==> final(fs).vol_data@[i] == old(fs).vol_data@[i])),
        r is Err ==> *final(fs) == *old(fs),
{ unimplemented!() }
// fs::File::open(path)
#[verifier::external_body]
pub fn fs_open(fs: &Fs, path: &String) -> (r: IoResult<FileH>)
    ensures r matches Ok(h) ==> fs.vol_dir@.contains_key(path@) && h.inode == fs.vol_dir@[path@]
{ unimplemented!() }
impl FileH {
    // File::sync_all on a regular file: its contents become durable (its directory entry does not)
    #[verifier::external_body]
    pub fn sync_all(&self, fs: &mut Fs) -> (r: IoResult<()>)
        ensures
            final(fs).vol_dir == old(fs).vol_dir, final(fs).dur_dir == old(fs).dur_dir, final(fs).vol_data == old(fs).vol_data,
            r is Ok && old(fs).vol_data@.contains_key(self.inode) ==> final(fs).dur_data@ == old(fs).dur_data@.insert(self.inode, old(fs).vol_data@[self.inode]),
            r is Err ==> final(fs).dur_data == old(fs).dur_data,
    { unimplemented!() }
}
// fs::rename(from, to): atomic in the volatile directory; durable only after the directory is synced
#[verifier::external_body]
pub fn fs_rename(fs: &mut Fs, from: &String, to: &String) -> (r: IoResult<()>)
    requires
        // "each unsynced write may or may not be kept": a rename can reach the disk before the data of the file it moves, so the
        // contents of the source must already be durable (fsync before rename) - otherwise a power loss may leave the target name
        // on a file without its contents
        old(fs).vol_dir@.contains_key(from@) ==> (old(fs).dur_data@.contains_key(old(fs).vol_dir@[from@]) && old(fs).vol_data@.contains_key(old(fs).vol_dir@[from@])
            && old(fs).dur_data@[old(fs).vol_dir@[from@]] == old(fs).vol_data@[old(fs).vol_dir@[from@]]),
    ensures
        final(fs).dur_dir == old(fs).dur_dir, final(fs).vol_data == old(fs).vol_data, final(fs).dur_data == old(fs).dur_data,
        r is Ok ==> old(fs).vol_dir@.contains_key(from@) && final(fs).vol_dir@ == old(fs).vol_dir@.remove(from@).insert(to@, old(fs).vol_dir@[from@]),
        r is Err ==> final(fs).vol_dir == old(fs).vol_dir,
{ unimplemented!() }
// open(dir) + sync_all: every directory entry becomes durable
#[verifier::external_body]
pub fn fs_sync_dir(fs: &mut Fs) -> (r: IoResult<()>)
    ensures
        final(fs).vol_dir == old(fs).vol_dir, final(fs).vol_data == old(fs).vol_data, final(fs).dur_data == old(fs).dur_data,
        r is Ok ==> final(fs).dur_dir == old(fs).vol_dir, r is Err ==> final(fs).dur_dir == old(fs).dur_dir,
{ unimplemented!() }

// rkyv::to_bytes of the whole map: the byte image is a function of the map (decode is its inverse: A-RKYV)
pub uninterp spec fn index_bytes(m: Map<String, BlockPos>) -> Seq<u8>;
#[verifier::external_body]
pub fn rkyv_to_bytes_index(m: &HashMap<String, BlockPos>) -> (r: Result<Vec<u8>, ()>) ensures r matches Ok(b) ==> b@ == index_bytes(m@) { unimplemented!() }
#[verifier::external_body]
pub fn tmp_name(path: &String) -> (r: String) ensures r@ == path@ + seq!['.', 't', 'm', 'p'] { unimplemented!() }

// ---- new WAL files (paths.rs create_new_file)
pub struct PathBuf { pub p: Ghost<Seq<char>> }
pub struct DirH { pub x: u8 }
pub uninterp spec fn join_spec(root: Seq<char>, name: Seq<char>) -> Seq<char>;
#[verifier::external_body]
pub fn path_join(root: &PathBuf, name: &String) -> (r: PathBuf) ensures r.p@ == join_spec(root.p@, name@) { unimplemented!() }
#[verifier::external_body]
pub fn path_to_string(p: &PathBuf) -> (r: String) ensures r@ == p.p@ { unimplemented!() }
#[verifier::external_body]
pub fn now_millis_str() -> (r: String) { unimplemented!() }
// fs::create_dir_all: no effect on the entries of the instance directory
#[verifier::external_body]
pub fn fs_create_dir_all(fs: &mut Fs, root: &PathBuf) -> (r: IoResult<()>) ensures *final(fs) == *old(fs) { unimplemented!() }
// File::create: create or truncate, volatile
#[verifier::external_body]
pub fn fs_create(fs: &mut Fs, path: &PathBuf) -> (r: IoResult<FileH>)
    ensures
        final(fs).dur_dir == old(fs).dur_dir, final(fs).dur_data == old(fs).dur_data,
        r matches Ok(h) ==> final(fs).vol_dir@ == old(fs).vol_dir@.insert(path.p@, h.inode) && final(fs).vol_data@ == old(fs).vol_data@.insert(h.inode, Seq::<u8>::empty()),
        r is Err ==> *final(fs) == *old(fs),
{ unimplemented!() }
impl FileH {
    // File::set_len on an empty file: n zero bytes (sparse), volatile
    #[verifier::external_body]
    pub fn set_len(&self, fs: &mut Fs, n: u64) -> (r: IoResult<()>)
        ensures
            final(fs).vol_dir == old(fs).vol_dir, final(fs).dur_dir == old(fs).dur_dir, final(fs).dur_data == old(fs).dur_data,
            r is Ok ==> final(fs).vol_data@ == old(fs).vol_data@.insert(self.inode, Seq::new(n as nat, |i: int| 0u8)),
            r is Err ==> final(fs).vol_data == old(fs).vol_data,
    { unimplemented!() }
}
#[verifier::external_body]
pub fn fs_open_dir(fs: &Fs, root: &PathBuf) -> (r: IoResult<DirH>) { unimplemented!() }
impl DirH {
    // sync_all on the directory: every entry (creation, rename) becomes durable
    #[verifier::external_body]
    pub fn sync_all(&self, fs: &mut Fs) -> (r: IoResult<()>)
        ensures
            final(fs).vol_dir == old(fs).vol_dir, final(fs).vol_data == old(fs).vol_data, final(fs).dur_data == old(fs).dur_data,
            r is Ok ==> final(fs).dur_dir == old(fs).vol_dir, r is Err ==> final(fs).dur_dir == old(fs).dur_dir,
    { unimplemented!() }
}

// names (C06): config.rs millis_str_after, verified in unit c06_names: the name it returns is the decimal form of a value above `floor`
pub uninterp spec fn name_value(n: Seq<char>) -> Option<u64>;     // Some(v) iff the name parses as u64 (str::parse)
#[verifier::external_body]
pub fn millis_str_after(floor: u64) -> (r: String) ensures name_value(r@) matches Some(v) && v > floor { unimplemented!() }


impl WalPathManager {
    // newest_wal_file_millis: read_dir + parse of every file name (std iterator chain): assumed contract (A-FS: the listing shows
    // every entry of the volatile directory): an upper bound of every numeric file name in the instance directory
    #[verifier::external_body]
    pub fn newest_wal_file_millis(&self, fs: &Fs) -> (r: u64)
        ensures forall|n: Seq<char>| #[trigger] fs.vol_dir@.contains_key(join_spec(self.root.p@, n)) && name_value(n) is Some ==> name_value(n)->Some_0 <= r
    { unimplemented!() }
}

// sync_parent_dir(p) called from paths.rs (open(parent of p) + sync_all): the entries of the instance directory become durable
// only if the directory synced is the instance directory, i.e. if `p` names something inside it (left uninterpreted: nothing
// in the model says that the instance root lies inside itself)
pub uninterp spec fn in_instance_dir(p: Seq<char>) -> bool;
#[verifier::external_body]
pub fn fs_sync_parent_of(fs: &mut Fs, p: &PathBuf) -> (r: IoResult<()>)
    ensures
        final(fs).vol_dir == old(fs).vol_dir, final(fs).vol_data == old(fs).vol_data, final(fs).dur_data == old(fs).dur_data,
        (r is Ok && in_instance_dir(p.p@)) ==> final(fs).dur_dir == old(fs).vol_dir,
        !(r is Ok && in_instance_dir(p.p@)) ==> final(fs).dur_dir == old(fs).dur_dir,
{ unimplemented!() }
