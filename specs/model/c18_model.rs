// C18 model: the per-topic segment-history invariant.
// R15: stand-in for the external type bytes::Bytes (only ever constructed from a static literal here)
pub struct Bytes { pub lit: &'static str }

// Bytes::from_static(b"...")
pub fn bytes_from_static(s: &'static str) -> (r: Bytes) ensures r.lit == s { Bytes { lit: s } }

// bincode::deserialize(command): an arbitrary Result (A-BINCODE: it either fails or yields some command)
#[verifier::external_body]
pub fn bincode_deserialize_cmd(command: &[u8]) -> (r: Result<MetadataCmd, String>) { unimplemented!() }

pub open spec fn sum_sealed(m: Map<u64, u64>, upto: nat) -> nat
    decreases upto
{
    if upto == 0 { 0 } else {
        sum_sealed(m, (upto - 1) as nat) + (if m.contains_key(upto as u64) { m[upto as u64] as nat } else { 0 })
    }
}

pub open spec fn topic_inv(t: TopicState) -> bool {
    &&& t.current_segment >= 1
    &&& forall|s: u64| #[trigger] t.segment_leaders@.contains_key(s) <==> (1 <= s <= t.current_segment)
    &&& t.segment_leaders@[t.current_segment] == t.leader_node
    &&& forall|s: u64| #[trigger] t.sealed_segments@.contains_key(s) <==> (1 <= s < t.current_segment)
    &&& t.last_sealed_entry_offset as nat == sum_sealed(t.sealed_segments@, (t.current_segment - 1) as nat)
}

pub open spec fn state_inv(s: ClusterState) -> bool {
    forall|name: String| #[trigger] s.topics@.contains_key(name) ==> topic_inv(s.topics@[name])
}

/// history of `a` is preserved in `b`: every segment sealed in a keeps its count and leader in b
pub open spec fn history_preserved(a: TopicState, b: TopicState) -> bool {
    &&& b.current_segment >= a.current_segment
    &&& forall|s: u64| 1 <= s < a.current_segment ==> #[trigger] b.sealed_segments@[s] == a.sealed_segments@[s]
    &&& forall|s: u64| 1 <= s < a.current_segment ==> #[trigger] b.segment_leaders@[s] == a.segment_leaders@[s]
}

pub proof fn lemma_sum_frame(m1: Map<u64, u64>, m2: Map<u64, u64>, upto: nat)
    requires
        upto <= u64::MAX,
        forall|s: u64| #![trigger m1.contains_key(s)] 1 <= s <= upto ==> (m1.contains_key(s) == m2.contains_key(s) && (m1.contains_key(s) ==> m1[s] == m2[s])),
    ensures sum_sealed(m1, upto) == sum_sealed(m2, upto)
    decreases upto
{
    if upto > 0 {
        lemma_sum_frame(m1, m2, (upto - 1) as nat);
        let s = upto as u64;
        assert(m1.contains_key(s) == m2.contains_key(s));
    }
}

pub open spec fn rollover_shape(a: TopicState, b: TopicState, count: u64, new_leader: u64) -> bool {
    &&& b.current_segment == a.current_segment + 1
    &&& b.leader_node == new_leader
    &&& b.last_sealed_entry_offset == a.last_sealed_entry_offset + count
    &&& b.sealed_segments@ == a.sealed_segments@.insert(a.current_segment, count)
    &&& b.segment_leaders@ == a.segment_leaders@.insert(a.current_segment, a.leader_node).insert(b.current_segment, new_leader)
}

pub proof fn lemma_rollover(a: TopicState, b: TopicState, count: u64, new_leader: u64)
    ensures topic_inv(a) && rollover_shape(a, b, count, new_leader) ==> topic_inv(b) && history_preserved(a, b)
{
    if topic_inv(a) && rollover_shape(a, b, count, new_leader) {
        let c = a.current_segment;
        lemma_sum_frame(a.sealed_segments@, b.sealed_segments@, (c - 1) as nat);
        assert(sum_sealed(b.sealed_segments@, c as nat) == sum_sealed(b.sealed_segments@, (c - 1) as nat) + count);
        assert(a.segment_leaders@[c] == a.leader_node);
    }
}

pub proof fn lemma_history_refl(a: TopicState)
    ensures history_preserved(a, a)
{}

