// plan ranges as the io region wants them: from the plan region's clauses (ranges <= 1 GiB, blocks well-formed)
pub proof fn lemma_plan_ranges_fit(plan: Seq<ReadPlan>)
    requires
        forall|k: int| 0 <= k < plan.len() ==> wf_block((#[trigger] plan[k]).blk),
        forall|k: int| 0 <= k < plan.len() ==> (#[trigger] plan[k]).start < plan[k].end && plan[k].end - plan[k].start <= 0x4000_0000 && plan[k].end <= 0x4000_0000,
    ensures
        forall|k: int| 0 <= k < plan.len() ==> (#[trigger] plan[k]).start <= plan[k].end && plan[k].end - plan[k].start <= 0x4000_0000 && plan[k].blk.offset + plan[k].end <= 0x1_ffff_ffff_ffff,
{
    assert forall|k: int| 0 <= k < plan.len() implies (#[trigger] plan[k]).start <= plan[k].end && plan[k].end - plan[k].start <= 0x4000_0000 && plan[k].blk.offset + plan[k].end <= 0x1_ffff_ffff_ffff by {
        assert(wf_block(plan[k].blk));
    }
}
