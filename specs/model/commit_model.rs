impl Walrus {
    #[verifier::external_body]
    fn decrement_topic_entry_count(&mut self, topic: &str, delta: u64)
        ensures
            final(self).topic_entry_counts@ == counts_after_dec(old(self).topic_entry_counts@, topic@, delta),
            final(self).read_offset_index == old(self).read_offset_index,
            final(self).read_consistency == old(self).read_consistency,
    { unimplemented!() }
}

pub open spec fn committed_cursor(c: ColReaderInfo, saw_tail: bool, chain_len_at_plan: usize, fbi: usize, fbo: u64, ftid: u64, fto: u64) -> bool {
    if saw_tail { c.cur_block_idx == chain_len_at_plan && c.cur_block_offset == 0 && c.tail_block_id == ftid && c.tail_offset == fto }
    else { c.cur_block_idx == fbi && c.cur_block_offset == fbo }
}
pub open spec fn persisted_is_cursor(e: (Seq<char>, u64, u64), col: Seq<char>, c: ColReaderInfo, saw_tail: bool) -> bool {
    e.0 == col && (if saw_tail { e.1 == (c.tail_block_id | (1u64 << 63)) && e.2 == c.tail_offset } else { e.1 == c.cur_block_idx as u64 && e.2 == c.cur_block_offset })
}
