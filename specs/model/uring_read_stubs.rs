#[verifier::external_body]
pub fn vec_of_empty_vecs(n: usize) -> (r: Vec<Vec<u8>>) ensures r@.len() == n, forall|k: int| 0 <= k < n ==> (#[trigger] r@[k])@.len() == 0 { unimplemented!() }
#[verifier::external_body]
pub fn vec_of_zeros(n: usize) -> (r: Vec<usize>) ensures r@.len() == n { unimplemented!() }

#[verifier::opaque]
pub open spec fn subs_match(subs: Seq<ReadOp>, plan: Seq<ReadPlan>, exp: Seq<usize>) -> bool {
    subs.len() == plan.len() && forall|k: int| 0 <= k < plan.len() ==> (#[trigger] subs[k]).ud == k && subs[k].file == plan[k].blk.mmap.file
        && subs[k].offset == plan[k].blk.offset + plan[k].start && subs[k].size == plan[k].end - plan[k].start && exp[k] == subs[k].size
}
pub proof fn lemma_all_filled(ring: RingR, bufs: Seq<Vec<u8>>, plan: Seq<ReadPlan>, exp: Seq<usize>)
    requires
        subs_match(ring.subs@, plan, exp), bufs.len() == plan.len(), exp.len() == plan.len(), ring.cqes@.len() == plan.len(),
        forall|j: int| 0 <= j < ring.cqes@.len() ==> (#[trigger] ring.cqes@[j]).0 < plan.len() ==> ring.cqes@[j].1 >= 0 && ring.cqes@[j].1 as int == exp[ring.cqes@[j].0 as int],
        completions_ok(ring.subs@, ring.cqes@, bufs),
    ensures forall|k: int| 0 <= k < plan.len() ==> (#[trigger] bufs[k])@ == want_bytes(plan[k]) && plan[k].blk.offset + plan[k].end <= disk(plan[k].blk.mmap.file).len(),
{
    reveal(subs_match); reveal(completions_ok);
    assert forall|k: int| 0 <= k < plan.len() implies (#[trigger] bufs[k])@ == want_bytes(plan[k]) && plan[k].blk.offset + plan[k].end <= disk(plan[k].blk.mmap.file).len() by {
        let j = choose|j: int| 0 <= j < ring.cqes@.len() && (#[trigger] ring.cqes@[j]).0 == (#[trigger] ring.subs@[k]).ud;
        assert(ring.cqes@[j].0 == k);
        let i = choose|i: int| 0 <= i < ring.subs@.len() && (#[trigger] ring.cqes@[j]).0 == (#[trigger] ring.subs@[i]).ud
            && ((ring.cqes@[j].1 == ring.subs@[i].size as int && ring.subs@[i].ud < bufs.len()) ==> filled(bufs[ring.subs@[i].ud as int]@, ring.subs@[i]));
        assert(ring.subs@[i].ud == i);
        assert(i == k);
        assert(filled(bufs[k]@, ring.subs@[k]));
    }
}

pub proof fn lemma_cqe_in_range(ring: RingR, bufs: Seq<Vec<u8>>, plan: Seq<ReadPlan>, exp: Seq<usize>, j: int)
    requires subs_match(ring.subs@, plan, exp), completions_ok(ring.subs@, ring.cqes@, bufs), 0 <= j < ring.cqes@.len(),
    ensures 0 <= ring.cqes@[j].0 < plan.len(),
{
    reveal(subs_match); reveal(completions_ok);
    let i = choose|i: int| 0 <= i < ring.subs@.len() && (#[trigger] ring.cqes@[j]).0 == (#[trigger] ring.subs@[i]).ud
        && ((ring.cqes@[j].1 == ring.subs@[i].size as int && ring.subs@[i].ud < bufs.len()) ==> filled(bufs[ring.subs@[i].ud as int]@, ring.subs@[i]));
    assert(ring.subs@[i].ud == i);
}

pub proof fn lemma_subs_match_intro(ring: RingR, plan: Seq<ReadPlan>, exp: Seq<usize>)
    requires ring.subs@.len() == plan.len(),
        forall|k: int| 0 <= k < plan.len() ==> (#[trigger] ring.subs@[k]).ud == k && ring.subs@[k].file == plan[k].blk.mmap.file
            && ring.subs@[k].offset == plan[k].blk.offset + plan[k].start && ring.subs@[k].size == plan[k].end - plan[k].start && exp[k] == ring.subs@[k].size,
    ensures subs_match(ring.subs@, plan, exp),
{ reveal(subs_match); }
// the mmap arms: `vec![0u8; size]` and SharedMmap::read into a Vec (same A-IO contract as prelude mmap_read)
#[verifier::external_body]
pub fn vec_of_zero_bytes(n: usize) -> (r: Vec<u8>) ensures r@.len() == n { unimplemented!() }
#[verifier::external_body]
pub fn mmap_read_vec(m: &MmapH, offset: usize, dest: &mut Vec<u8>)
    ensures
        final(dest)@.len() == old(dest)@.len(),
        offset + old(dest)@.len() <= disk(m.file).len() ==> final(dest)@ == disk(m.file).subrange(offset as int, offset + old(dest)@.len()),
{ unimplemented!() }
