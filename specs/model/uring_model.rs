// io_uring completion side (R10): after submit_and_wait(n) returned Ok, exactly n completions are available, one per
// submitted operation, in an arbitrary order and with arbitrary result codes (that IS the fault quantification:
// every operation may fail with any errno or complete short). A-URING: result == len means all len bytes are on disk.
pub struct Cqe { pub ud: u64, pub res: i32 }
impl Cqe {
    pub fn user_data(&self) -> (r: u64) ensures r == self.ud { self.ud }
    pub fn result(&self) -> (r: i32) ensures r == self.res { self.res }
}
pub struct RingG { pub cqes: Ghost<Seq<(u64, i32)>>, pub taken: Ghost<int>, pub submitted: Ghost<bool> }
pub struct CompletionQ<'a> { pub ring: &'a mut RingG }
impl RingG {
    #[verifier::external_body]
    pub fn submit_and_wait(&mut self, n: usize) -> (r: IoResult<usize>)
        requires !old(self).submitted@
        ensures
            r is Ok ==> final(self).submitted@ && final(self).taken@ == 0 && final(self).cqes@.len() == n && is_permutation_of_ops(final(self).cqes@, n as int),
            r is Err ==> !final(self).submitted@,
    { unimplemented!() }
    // `ring.completion().next()`
    #[verifier::external_body]
    pub fn completion_next(&mut self) -> (r: Option<Cqe>)
        requires old(self).submitted@
        ensures
            final(self).cqes == old(self).cqes, final(self).submitted == old(self).submitted,
            match r {
                Some(c) => old(self).taken@ < old(self).cqes@.len() && (c.ud, c.res) == old(self).cqes@[old(self).taken@] && final(self).taken@ == old(self).taken@ + 1,
                None => old(self).taken@ >= old(self).cqes@.len() && final(self).taken@ == old(self).taken@ },
    { unimplemented!() }
}
/// the n completions carry the user_data 0..n-1, each exactly once (one completion per submitted write)
pub open spec fn is_permutation_of_ops(c: Seq<(u64, i32)>, n: int) -> bool {
    &&& c.len() == n
    &&& forall|k: int| 0 <= k < n ==> 0 <= (#[trigger] c[k]).0 < n
    &&& forall|j: int, k: int| 0 <= j < k < n ==> (#[trigger] c[j]).0 != (#[trigger] c[k]).0
}
