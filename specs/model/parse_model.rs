// Context W: the bytes being parsed were written by the engine (C11 covers the other case).
pub open spec fn bytes_well_formed() -> bool {
    &&& forall|b: Seq<u8>| #[trigger] valid_archive(b)
    &&& forall|b: Seq<u8>| (#[trigger] spec_decode(b)).read_size < 0x100_0000_0000
}

pub open spec fn payload_sum(es: Seq<Entry>) -> int
    decreases es.len()
{
    if es.len() == 0 { 0 } else { payload_sum(es.drop_last()) + es.last().data.len() }
}

pub proof fn lemma_payload_sum_push(es: Seq<Entry>, e: Entry)
    ensures payload_sum(es.push(e)) == payload_sum(es) + e.data.len()
{
    assert(es.push(e).drop_last() =~= es);
}

// C01: a range counts as done when parsing consumed its whole buffer and the range reached the end of its block
pub open spec fn range_done(c: usize, p: ReadPlan, blen: int) -> bool {
    c == blen && (p.is_tail || p.end >= p.blk.used)
}
pub open spec fn ranges_done(consumed: Seq<usize>, plan: Seq<ReadPlan>, buffers: Seq<Vec<u8>>, n: int) -> bool {
    consumed.len() == n && n <= plan.len() && n <= buffers.len()
        && forall|j: int| 0 <= j < n ==> range_done(#[trigger] consumed[j], plan[j], buffers[j].len() as int)
}
pub proof fn lemma_ranges_done_push(consumed: Seq<usize>, plan: Seq<ReadPlan>, buffers: Seq<Vec<u8>>, n: int, c: usize)
    requires ranges_done(consumed, plan, buffers, n), n < plan.len(), n < buffers.len(),
    ensures range_done(c, plan[n], buffers[n].len() as int) ==> ranges_done(consumed.push(c), plan, buffers, n + 1)
{
    let c2 = consumed.push(c);
    if range_done(c, plan[n], buffers[n].len() as int) {
        assert forall|j: int| 0 <= j < n + 1 implies range_done(#[trigger] c2[j], plan[j], buffers[j].len() as int) by {
            if j < n { assert(c2[j] == consumed[j]); }
        }
    }
}
