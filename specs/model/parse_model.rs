// Context W: the bytes being parsed were written by the engine (C11 covers the other case).
pub open spec fn bytes_well_formed() -> bool {
    &&& forall|b: Seq<u8>| #[trigger] valid_archive(b)
    &&& forall|b: Seq<u8>| (#[trigger] spec_decode(b)).read_size < 0x100_0000_0000
}

pub open spec fn payload_sum(es: Seq<Entry>) -> int
    decreases es.len()
{
    if es.len() == 0 { 0 } else { payload_sum(es.drop_last()) + es.last().data.len() }
}

pub proof fn lemma_payload_sum_push(es: Seq<Entry>, e: Entry)
    ensures payload_sum(es.push(e)) == payload_sum(es) + e.data.len()
{
    assert(es.push(e).drop_last() =~= es);
}
