// Context W: the bytes being parsed were written by the engine (C11 covers the other case).
pub open spec fn bytes_well_formed() -> bool {
    &&& forall|b: Seq<u8>| #[trigger] valid_archive(b)
    &&& forall|b: Seq<u8>| (#[trigger] spec_decode(b)).read_size < 0x100_0000_0000
}

pub open spec fn payload_sum(es: Seq<Entry>) -> int
    decreases es.len()
{
    if es.len() == 0 { 0 } else { payload_sum(es.drop_last()) + es.last().data.len() }
}

pub proof fn lemma_payload_sum_push(es: Seq<Entry>, e: Entry)
    ensures payload_sum(es.push(e)) == payload_sum(es) + e.data.len()
{
    assert(es.push(e).drop_last() =~= es);
}

// C01: a range counts as done when parsing consumed its whole buffer and the range reached the end of its block
pub open spec fn range_done(c: usize, p: ReadPlan, blen: int) -> bool {
    c == blen && (p.is_tail || p.end >= p.blk.used)
}
pub open spec fn ranges_done(consumed: Seq<usize>, plan: Seq<ReadPlan>, buffers: Seq<Vec<u8>>, n: int) -> bool {
    consumed.len() == n && n <= plan.len() && n <= buffers.len()
        && forall|j: int| 0 <= j < n ==> range_done(#[trigger] consumed[j], plan[j], buffers[j].len() as int)
}
pub proof fn lemma_ranges_done_push(consumed: Seq<usize>, plan: Seq<ReadPlan>, buffers: Seq<Vec<u8>>, n: int, c: usize)
    requires ranges_done(consumed, plan, buffers, n), n < plan.len(), n < buffers.len(),
    ensures range_done(c, plan[n], buffers[n].len() as int) ==> ranges_done(consumed.push(c), plan, buffers, n + 1)
{
    let c2 = consumed.push(c);
    if range_done(c, plan[n], buffers[n].len() as int) {
        assert forall|j: int| 0 <= j < n + 1 implies range_done(#[trigger] c2[j], plan[j], buffers[j].len() as int) by {
            if j < n { assert(c2[j] == consumed[j]); }
        }
    }
}

// ---- functional view (C01): what the parser returns is exactly the payloads of the entries it walked over, in order
pub open spec fn entries_view(es: Seq<Entry>) -> Seq<Seq<u8>> { Seq::new(es.len(), |i: int| es[i].data@) }
pub open spec fn all_payloads(buffers: Seq<Vec<u8>>, consumed: Seq<usize>, n: int) -> Seq<Seq<u8>>
    decreases n
{
    if n <= 0 { Seq::empty() } else { all_payloads(buffers, consumed, n - 1) + payloads_d(buffers[n - 1]@, 0, consumed[n - 1] as int) }
}
pub open spec fn all_packed(buffers: Seq<Vec<u8>>, consumed: Seq<usize>) -> bool {
    consumed.len() <= buffers.len() && forall|p: int| 0 <= p < consumed.len() ==> (#[trigger] consumed[p]) <= buffers[p]@.len() && packed_d(buffers[p]@, 0, consumed[p] as int)
}
pub proof fn lemma_packed_extend(d: Seq<u8>, a: int, b: int)
    requires 0 <= a <= b, packed_d(d, a, b), entry_ok_d(d, b), entry_size_d(d, b) >= 0,
    ensures packed_d(d, a, entry_end_d(d, b)), payloads_d(d, a, entry_end_d(d, b)) == payloads_d(d, a, b).push(d.subrange(b + 256, entry_end_d(d, b))),
    decreases b - a
{
    let e = entry_end_d(d, b);
    if a >= b {
        assert(a == b);
        assert(packed_d(d, e, e));
        assert(payloads_d(d, e, e) =~= Seq::<Seq<u8>>::empty());
        assert(payloads_d(d, a, b) =~= Seq::<Seq<u8>>::empty());
        assert(payloads_d(d, a, e) =~= seq![d.subrange(b + 256, e)]);
        assert(Seq::<Seq<u8>>::empty().push(d.subrange(b + 256, e)) =~= seq![d.subrange(b + 256, e)]);
    } else {
        let n = entry_end_d(d, a);
        lemma_packed_extend(d, n, b);
        let p0 = d.subrange(a + 256, n);
        assert(payloads_d(d, a, e) =~= seq![p0] + payloads_d(d, n, e));
        assert(payloads_d(d, a, b) =~= seq![p0] + payloads_d(d, n, b));
        assert(seq![p0] + payloads_d(d, n, b).push(d.subrange(b + 256, e)) =~= (seq![p0] + payloads_d(d, n, b)).push(d.subrange(b + 256, e)));
    }
}
pub proof fn lemma_all_payloads_push(buffers: Seq<Vec<u8>>, consumed: Seq<usize>, c: usize)
    ensures all_payloads(buffers, consumed.push(c), consumed.len() as int + 1) == all_payloads(buffers, consumed, consumed.len() as int) + payloads_d(buffers[consumed.len() as int]@, 0, c as int)
{
    let c2 = consumed.push(c);
    lemma_all_payloads_frame(buffers, consumed, c2, consumed.len() as int);
    assert(c2[consumed.len() as int] == c);
}
pub proof fn lemma_all_payloads_frame(buffers: Seq<Vec<u8>>, c1: Seq<usize>, c2: Seq<usize>, n: int)
    requires 0 <= n <= c1.len(), n <= c2.len(), forall|i: int| 0 <= i < n ==> c1[i] == c2[i],
    ensures all_payloads(buffers, c1, n) == all_payloads(buffers, c2, n),
    decreases n
{
    if n > 0 { lemma_all_payloads_frame(buffers, c1, c2, n - 1); }
}
pub proof fn lemma_view_push(es: Seq<Entry>, e: Entry)
    ensures entries_view(es.push(e)) == entries_view(es).push(e.data@)
{
    assert(entries_view(es.push(e)) =~= entries_view(es).push(e.data@));
}
pub proof fn lemma_all_packed_push(buffers: Seq<Vec<u8>>, consumed: Seq<usize>, c: usize)
    requires all_packed(buffers, consumed), consumed.len() < buffers.len(), c <= buffers[consumed.len() as int]@.len(), packed_d(buffers[consumed.len() as int]@, 0, c as int),
    ensures all_packed(buffers, consumed.push(c)),
{
    let c2 = consumed.push(c);
    assert forall|p: int| 0 <= p < c2.len() implies (#[trigger] c2[p]) <= buffers[p]@.len() && packed_d(buffers[p]@, 0, c2[p] as int) by {
        if p < consumed.len() { assert(c2[p] == consumed[p]); }
    }
}
