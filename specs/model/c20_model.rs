// C20 model: bincode as a pair of functions with the round-trip law (A-BINCODE). The law is only justified for a
// #[derive(Serialize, Deserialize)] struct whose serde field attributes are symmetric; the extractor computes that
// syntactically (SERDE_SYMMETRIC_*) and it is an obligation below.
pub uninterp spec fn enc_state(s: ClusterState) -> Seq<u8>;
pub uninterp spec fn dec_state(b: Seq<u8>) -> Option<ClusterState>;
pub broadcast axiom fn axiom_bincode_roundtrip(s: ClusterState)
    requires SERDE_SYMMETRIC_ClusterState && SERDE_SYMMETRIC_TopicState
    ensures #[trigger] dec_state(enc_state(s)) == Some(s);

// bincode::serialize(&state).unwrap_or_default()
#[verifier::external_body]
pub fn bincode_serialize_state(s: &ClusterState) -> (r: Vec<u8>) ensures r@ == enc_state(*s) { unimplemented!() }
// bincode::deserialize(data).map_err(|e| format!(..))
#[verifier::external_body]
pub fn bincode_deserialize_state(data: &[u8]) -> (r: Result<ClusterState, String>)
    ensures match r { Ok(s) => dec_state(data@) == Some(s), Err(_) => dec_state(data@) is None }
{ unimplemented!() }
// ClusterState::default() (derive(Default))
#[verifier::external_body]
pub fn cluster_state_default() -> (r: ClusterState) ensures r.topics@ == Map::<String, TopicState>::empty() && r.nodes@ == Map::<u64, String>::empty() { unimplemented!() }
// RwLock::try_read()/try_write(): unlike read()/write() these fail under mere contention, so the result is arbitrary
#[verifier::external_body]
pub fn lock_try_read<'a>(cell: &'a ClusterState) -> (r: Option<&'a ClusterState>) ensures r matches Some(c) ==> *c == *cell { unimplemented!() }
