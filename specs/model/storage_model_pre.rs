pub type IoResult<T> = Result<T, IoError>;
pub type MmapMut = MmapG;
