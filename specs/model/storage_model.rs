// C16: both storage arms against ONE byte-level contract. The OS / memmap2 side is assumed (A-IO, A-MMAP):
//  - FileG  = std::fs::File of a preallocated WAL file: pwrite/pread inside the file transfer the whole buffer
//  - MmapG  = memmap2::MmapMut over the same file (MAP_SHARED): the mapping's bytes ARE the file's bytes
pub struct FileG { pub id: int }
pub struct MmapG { pub id: int, pub n: usize }
pub struct Disk { pub bytes: Ghost<Map<int, Seq<u8>>> }
pub open spec fn write_at(d: Seq<u8>, off: int, data: Seq<u8>) -> Seq<u8> { d.subrange(0, off) + data + d.subrange(off + data.len(), d.len() as int) }

impl FileG {
    // FileExt::write_at (pwrite). A-IO: inside the preallocated file the whole buffer is written; the result is what the code ignores
    #[verifier::external_body]
    pub fn write_at(&self, disk: &mut Disk, data: &[u8], offset: u64) -> (r: Result<usize, ()>)
        requires old(disk).bytes@.contains_key(self.id),
        ensures offset + data@.len() <= old(disk).bytes@[self.id].len() ==> final(disk).bytes@ == old(disk).bytes@.insert(self.id, write_at(old(disk).bytes@[self.id], offset as int, data@)),
                final(disk).bytes@.dom() == old(disk).bytes@.dom(),
    { unimplemented!() }
    #[verifier::external_body]
    pub fn read_at(&self, disk: &Disk, dest: &mut [u8], offset: u64) -> (r: Result<usize, ()>)
        requires disk.bytes@.contains_key(self.id),
        ensures final(dest)@.len() == old(dest)@.len(),
                offset + old(dest)@.len() <= disk.bytes@[self.id].len() ==> final(dest)@ == disk.bytes@[self.id].subrange(offset as int, offset + old(dest)@.len()),
    { unimplemented!() }
    #[verifier::external_body]
    pub fn sync_all(&self, disk: &mut Disk) -> (r: IoResult<()>) ensures final(disk).bytes == old(disk).bytes { unimplemented!() }
}
impl MmapG {
    #[verifier::external_body]
    pub fn len(&self) -> (r: usize) ensures r == self.n { unimplemented!() }
    #[verifier::external_body]
    pub fn flush(&self, disk: &mut Disk) -> (r: IoResult<()>) ensures final(disk).bytes == old(disk).bytes { unimplemented!() }
}
// R11: `unsafe { copy_nonoverlapping(data.as_ptr(), mmap.as_ptr().add(offset), data.len()) }` -> trusted stub whose
// precondition is the block's SAFETY condition (destination range inside the mapping)
#[verifier::external_body]
pub fn mmap_copy_in(mmap: &MmapG, disk: &mut Disk, offset: usize, data: &[u8])
    requires old(disk).bytes@.contains_key(mmap.id), old(disk).bytes@[mmap.id].len() == mmap.n, offset + data@.len() <= mmap.n,
    ensures final(disk).bytes@ == old(disk).bytes@.insert(mmap.id, write_at(old(disk).bytes@[mmap.id], offset as int, data@)),
{ unimplemented!() }
// `let src = &mmap[offset..offset + dest.len()]; dest.copy_from_slice(src);` (panics when out of range: precondition)
#[verifier::external_body]
pub fn mmap_copy_out(mmap: &MmapG, disk: &Disk, offset: usize, dest: &mut [u8])
    requires disk.bytes@.contains_key(mmap.id), disk.bytes@[mmap.id].len() == mmap.n, offset + old(dest)@.len() <= mmap.n,
    ensures final(dest)@ == disk.bytes@[mmap.id].subrange(offset as int, offset + old(dest)@.len()),
{ unimplemented!() }

pub open spec fn st_id(s: StorageImpl) -> int { match s { StorageImpl::Mmap(m) => m.id, StorageImpl::Fd(f) => f.file.id } }
pub open spec fn st_len(s: StorageImpl) -> int { match s { StorageImpl::Mmap(m) => m.n as int, StorageImpl::Fd(f) => f.len as int } }
pub open spec fn st_wf(s: StorageImpl, disk: Disk) -> bool { disk.bytes@.contains_key(st_id(s)) && disk.bytes@[st_id(s)].len() == st_len(s) }
