// C21: the Raft log store (octopii/src/openraft/storage.rs): live operations on MemLogStoreInner and the replay of the WAL
// records at start-up are proved against ONE abstract transformer per record kind, so that replaying what the live operations
// persisted reproduces the live state.
pub type IoResult<T> = Result<T, ()>;
#[derive(Clone, Copy)]
pub struct LogIdG { pub index: u64, pub term: u64 }
#[derive(Clone, Copy)]
pub struct EntryG { pub log_id: LogIdG, pub payload: u64 }
#[derive(Clone, Copy)]
pub struct VoteG { pub v: u64 }
pub struct Bytes { pub v: Vec<u8> }
pub struct OctopiiError { pub x: u8 }

// BTreeMap<u64, Entry>: the three access patterns the store uses (R8: range(..).map().collect() -> key lists)
pub struct LogMap { pub m: Ghost<Map<u64, EntryG>> }
impl LogMap {
    #[verifier::external_body]
    pub fn insert(&mut self, k: u64, v: EntryG) -> (r: Option<EntryG>) ensures final(self).m@ == old(self).m@.insert(k, v) { unimplemented!() }
    #[verifier::external_body]
    pub fn remove(&mut self, k: &u64) -> (r: Option<EntryG>) ensures final(self).m@ == old(self).m@.remove(*k) { unimplemented!() }
    // `.range(from..).map(|(k, _)| *k).collect::<Vec<_>>()`
    #[verifier::external_body]
    pub fn keys_from(&self, from: u64) -> (r: Vec<u64>) ensures forall|k: u64| r@.contains(k) <==> (self.m@.contains_key(k) && k >= from) { unimplemented!() }
    // `.range(..=upto).map(|(k, _)| *k).collect::<Vec<_>>()`
    #[verifier::external_body]
    pub fn keys_upto(&self, upto: u64) -> (r: Vec<u64>) ensures forall|k: u64| r@.contains(k) <==> (self.m@.contains_key(k) && k <= upto) { unimplemented!() }
}
pub struct St { pub log: Map<u64, EntryG>, pub vote: Option<VoteG>, pub committed: Option<LogIdG>, pub purged: Option<LogIdG> }
/// m1 is m0 without the entries from index idx on / up to index idx (values untouched)
pub open spec fn is_truncation(m0: Map<u64, EntryG>, m1: Map<u64, EntryG>, idx: u64) -> bool {
    (forall|k: u64| m1.contains_key(k) <==> (m0.contains_key(k) && k < idx)) && (forall|k: u64| m1.contains_key(k) ==> m1[k] == m0[k])
}
pub open spec fn is_purge(m0: Map<u64, EntryG>, m1: Map<u64, EntryG>, idx: u64) -> bool {
    (forall|k: u64| m1.contains_key(k) <==> (m0.contains_key(k) && k > idx)) && (forall|k: u64| m1.contains_key(k) ==> m1[k] == m0[k])
}

// ---- removing a list of keys one by one (the loops of truncate / purge / replay), as lemmas proved in isolation
pub open spec fn key_before(keys: Seq<u64>, n: int, k: u64) -> bool { exists|j: int| 0 <= j < n && keys[j] == k }
pub open spec fn minus_keys(cur: Map<u64, EntryG>, pre: Map<u64, EntryG>, keys: Seq<u64>, n: int) -> bool {
    (forall|k: u64| #![trigger cur.contains_key(k)] cur.contains_key(k) <==> (pre.contains_key(k) && !key_before(keys, n, k)))
    && (forall|k: u64| #![trigger cur.contains_key(k)] cur.contains_key(k) ==> cur[k] == pre[k])
}
pub proof fn lemma_minus_start(pre: Map<u64, EntryG>, keys: Seq<u64>)
    ensures minus_keys(pre, pre, keys, 0)
{}
pub proof fn lemma_minus_step(pre: Map<u64, EntryG>, m_in: Map<u64, EntryG>, keys: Seq<u64>, n: int)
    requires minus_keys(m_in, pre, keys, n), 0 <= n < keys.len(),
    ensures minus_keys(m_in.remove(keys[n]), pre, keys, n + 1),
{
    let key = keys[n];
    let cur = m_in.remove(key);
    assert forall|k: u64| #![trigger cur.contains_key(k)] cur.contains_key(k) <==> (pre.contains_key(k) && !key_before(keys, n + 1, k)) by {
        if k == key { assert(keys[n] == k); assert(key_before(keys, n + 1, k)); }
        else {
            assert(cur.contains_key(k) == m_in.contains_key(k));
            if key_before(keys, n + 1, k) { let j = choose|j: int| 0 <= j < n + 1 && keys[j] == k; assert(j != n); assert(key_before(keys, n, k)); }
            if key_before(keys, n, k) { let j = choose|j: int| 0 <= j < n && keys[j] == k; assert(0 <= j < n + 1 && keys[j] == k); }
        }
    }
    assert forall|k: u64| #![trigger cur.contains_key(k)] cur.contains_key(k) implies cur[k] == pre[k] by { assert(m_in.contains_key(k)); }
}
pub proof fn lemma_minus_done_from(pre: Map<u64, EntryG>, cur: Map<u64, EntryG>, keys: Seq<u64>, idx: u64)
    requires minus_keys(cur, pre, keys, keys.len() as int), forall|k: u64| keys.contains(k) <==> (pre.contains_key(k) && k >= idx),
    ensures is_truncation(pre, cur, idx),
{
    assert forall|k: u64| cur.contains_key(k) <==> (pre.contains_key(k) && k < idx) by {
        assert(keys.contains(k) <==> (pre.contains_key(k) && k >= idx));
        if key_before(keys, keys.len() as int, k) { let j = choose|j: int| 0 <= j < keys.len() && keys[j] == k; assert(keys.contains(k)); }
        if keys.contains(k) { let j = choose|j: int| 0 <= j < keys.len() && keys[j] == k; assert(key_before(keys, keys.len() as int, k)); }
    }
}
pub proof fn lemma_minus_done_upto(pre: Map<u64, EntryG>, cur: Map<u64, EntryG>, keys: Seq<u64>, idx: u64)
    requires minus_keys(cur, pre, keys, keys.len() as int), forall|k: u64| keys.contains(k) <==> (pre.contains_key(k) && k <= idx),
    ensures is_purge(pre, cur, idx),
{
    assert forall|k: u64| cur.contains_key(k) <==> (pre.contains_key(k) && k > idx) by {
        assert(keys.contains(k) <==> (pre.contains_key(k) && k <= idx));
        if key_before(keys, keys.len() as int, k) { let j = choose|j: int| 0 <= j < keys.len() && keys[j] == k; assert(keys.contains(k)); }
        if keys.contains(k) { let j = choose|j: int| 0 <= j < keys.len() && keys[j] == k; assert(key_before(keys, keys.len() as int, k)); }
    }
}

// ---- replay
pub open spec fn st(i: MemLogStoreInner) -> St { St { log: i.log.m@, vote: i.vote, committed: i.committed, purged: i.last_purged_log_id } }
/// the effect of ONE persisted record on the abstract state: the same relation the live operation that wrote it establishes
pub open spec fn step(r: WalLogRecord, a: St, b: St) -> bool {
    match r {
        WalLogRecord::LogEntry(e) => b.log == a.log.insert(e.log_id.index, e) && b.vote == a.vote && b.committed == a.committed && b.purged == a.purged,
        WalLogRecord::Vote(v) => b.vote == Some(v) && b.log == a.log && b.committed == a.committed && b.purged == a.purged,
        WalLogRecord::Committed(c) => b.committed == c && b.log == a.log && b.vote == a.vote && b.purged == a.purged,
        WalLogRecord::Purged(id) => is_purge(a.log, b.log, id.index) && b.purged == Some(id) && b.vote == a.vote && b.committed == a.committed,
        WalLogRecord::Truncated(id) => is_truncation(a.log, b.log, id.index) && b.vote == a.vote && b.committed == a.committed && b.purged == a.purged,
    }
}
pub open spec fn replayed(recs: Seq<WalLogRecord>, a: St, b: St) -> bool
    decreases recs.len()
{
    if recs.len() == 0 { a == b } else { exists|mid: St| replayed(recs.drop_last(), a, mid) && step(recs.last(), mid, b) }
}
pub proof fn lemma_replay_push(recs: Seq<WalLogRecord>, r: WalLogRecord, a: St, mid: St, b: St)
    requires replayed(recs, a, mid), step(r, mid, b),
    ensures replayed(recs.push(r), a, b),
{
    assert(recs.push(r).drop_last() =~= recs);
    assert(recs.push(r).last() == r);
}
// bincode::deserialize::<WalLogRecord>(&raw): an arbitrary Result (A-BINCODE); what was decoded is named by the ghost function
pub uninterp spec fn decoded(raw: Seq<u8>) -> Option<WalLogRecord>;
#[verifier::external_body]
pub fn decode_record(raw: &Bytes) -> (r: Result<WalLogRecord, ()>)
    ensures r matches Ok(x) ==> decoded(raw.v@) == Some(x), r is Err ==> decoded(raw.v@) is None
{ unimplemented!() }
pub open spec fn decode_all(raws: Seq<Bytes>, n: int) -> Seq<WalLogRecord>
    decreases n
{
    if n <= 0 { Seq::empty() } else { decode_all(raws, n - 1).push(decoded(raws[n - 1].v@)->Some_0) }
}
#[verifier::external_body]
pub fn bytes_take(v: &mut Vec<Bytes>, k: usize) -> (r: Bytes)
    requires k < old(v)@.len(),
    ensures r.v@ == old(v)@[k as int].v@, final(v)@.len() == old(v)@.len(), forall|j: int| 0 <= j < old(v)@.len() && j != k ==> (#[trigger] final(v)@[j]).v@ == old(v)@[j].v@,
{ unimplemented!() }
