// batch_write (planning, portable write loop, rollback, publication). Builds on batch_complete_model.rs
// (BatchRevertInfo, GlobalsW, VxSet, zero_range stub, headers_zeroed, lemma_zero_step).
pub struct ReaderH { pub chain_log: Ghost<Seq<(Seq<char>, Block)>> }
impl ReaderH {
    #[verifier::external_body]
    pub fn append_block_to_chain(&mut self, col: &str, block: Block) -> (r: IoResult<()>)
        ensures final(self).chain_log@ == old(self).chain_log@.push((col@, block))
    { unimplemented!() }
}
pub open spec fn block_in_file(b: Block, sys: Sys) -> bool {
    sys.files@.contains_key(b.mmap.file) && b.offset + b.limit <= sys.files@[b.mmap.file].len() && b.offset + b.limit <= 0x7fff_ffff_ffff
    && b.mmap.file == file_of_path(b.file_path@)
}
pub open spec fn blocks_disjoint(a: Block, b: Block) -> bool {
    a.mmap.file != b.mmap.file || a.offset + a.limit <= b.offset || b.offset + b.limit <= a.offset
}
// Arc<BlockAllocator>::alloc_block: what unit core_trackers proves + A-ALLOC-FRESH (the byte range handed out was never
// handed out before: it overlaps none of the blocks this writer holds)
pub struct AllocH { pub next_id: u64 }
impl AllocH {
    #[verifier::external_body]
    pub fn alloc_block(&mut self, sys: &Sys, Ghost(held): Ghost<Seq<Block>>, want_bytes: u64) -> (r: IoResult<Block>)
        ensures
            (want_bytes == 0 || want_bytes > 1073741824) ==> r is Err,
            r matches Ok(b) ==> b.used == 0 && b.limit >= want_bytes && b.limit >= 10485760 && block_in_file(b, *sys)
                && forall|i: int| 0 <= i < held.len() ==> blocks_disjoint(#[trigger] held[i], b),
    { unimplemented!() }
}

/// byte image of one entry (header + payload) as Block::write lays it out: proved against the format model in unit block_rw,
/// abstract here (only its length matters)
pub uninterp spec fn enc(payload: Seq<u8>, owner: Seq<char>, nbs: u64) -> Seq<u8>;
pub broadcast axiom fn axiom_enc_len(payload: Seq<u8>, owner: Seq<char>, nbs: u64)
    ensures #[trigger] enc(payload, owner, nbs).len() == 256 + payload.len();

impl Block {
    // assumed contract of Block::write = what unit block_rw proves, with the byte image abstracted to `enc`
    #[verifier::external_body]
    pub fn write(&self, sys: &mut Sys, in_block_offset: u64, data: &[u8], owned_by: &str, next_block_start: u64) -> (ret: IoResult<()>)
        requires
            old(sys).files@.contains_key(self.mmap.file),
            self.offset + in_block_offset + 256 + data@.len() <= old(sys).files@[self.mmap.file].len(),
            self.offset + in_block_offset + 256 + data@.len() <= 0x7fff_ffff_ffff,
        ensures
            ret is Ok ==> final(sys).files@ == old(sys).files@.insert(self.mmap.file, write_at(old(sys).files@[self.mmap.file], self.offset + in_block_offset, enc(data@, owned_by@, next_block_start))),
            ret is Err ==> final(sys).files@ == old(sys).files@,
    { unimplemented!() }
}

pub open spec fn need_of(batch: Seq<&[u8]>, i: int) -> int { 256 + batch[i]@.len() as int }
pub open spec fn reg_lo(p: (Block, u64, usize)) -> int { p.0.offset + p.1 }
pub open spec fn regions_disjoint(p: (Block, u64, usize), np: int, q: (Block, u64, usize), nq: int) -> bool {
    p.0.mmap.file != q.0.mmap.file || reg_lo(p) + np <= reg_lo(q) || reg_lo(q) + nq <= reg_lo(p)
}
/// the write plan so far: one element per batch entry, in batch order, each inside its block, no two overlapping
pub open spec fn plan_ok(plan: Seq<(Block, u64, usize)>, batch: Seq<&[u8]>, sys: Sys) -> bool {
    &&& plan.len() <= batch.len()
    &&& forall|i: int| 0 <= i < plan.len() ==> (#[trigger] plan[i]).2 == i && plan[i].1 + need_of(batch, i) <= plan[i].0.limit && block_in_file(plan[i].0, sys)
    &&& forall|i: int, j: int| 0 <= i < j < plan.len() ==> regions_disjoint(#[trigger] plan[i], need_of(batch, i), #[trigger] plan[j], need_of(batch, j))
}
/// relation of the plan to the block being planned into
pub open spec fn plan_vs_block(plan: Seq<(Block, u64, usize)>, batch: Seq<&[u8]>, pb: Block, poff: u64) -> bool {
    forall|i: int| 0 <= i < plan.len() ==> ((#[trigger] plan[i]).0 == pb ==> plan[i].1 + need_of(batch, i) <= poff) && (plan[i].0 != pb ==> blocks_disjoint(plan[i].0, pb))
}
pub open spec fn plan_blocks(plan: Seq<(Block, u64, usize)>) -> Seq<Block> { Seq::new(plan.len(), |i: int| plan[i].0) }

/// the consecutive-tiling shape of the plan (C01: batch order is disk order)
pub open spec fn plan_tiled(plan: Seq<(Block, u64, usize)>, batch: Seq<&[u8]>, b0: Block, off0: u64) -> bool {
    &&& plan.len() > 0 ==> (plan[0].0 == b0 && plan[0].1 == off0) || plan[0].1 == 0
    &&& forall|i: int| 0 <= i < plan.len() - 1 ==> ((#[trigger] plan[i + 1]).0 == plan[i].0 && plan[i + 1].1 == plan[i].1 + need_of(batch, i)) || (plan[i + 1].0 != plan[i].0 && plan[i + 1].1 == 0)
}

pub open spec fn entry_at(sys: Sys, p: (Block, u64, usize), payload: Seq<u8>, owner: Seq<char>) -> bool {
    sys.files@.contains_key(p.0.mmap.file) && reg_lo(p) + 256 + payload.len() <= sys.files@[p.0.mmap.file].len()
    && sys.files@[p.0.mmap.file].subrange(reg_lo(p), reg_lo(p) + 256 + payload.len()) == enc(payload, owner, (p.0.offset + p.0.limit) as u64)
}
pub open spec fn region_same(a: Sys, b: Sys, p: (Block, u64, usize), n: int) -> bool {
    a.files@.contains_key(p.0.mmap.file) && b.files@.contains_key(p.0.mmap.file)
    && a.files@[p.0.mmap.file].subrange(reg_lo(p), reg_lo(p) + n) == b.files@[p.0.mmap.file].subrange(reg_lo(p), reg_lo(p) + n)
}
/// entries with index < n are on disk at their planned positions
pub open spec fn written_upto(plan: Seq<(Block, u64, usize)>, batch: Seq<&[u8]>, owner: Seq<char>, sys: Sys, n: int) -> bool {
    forall|i: int| 0 <= i < n && i < plan.len() ==> entry_at(sys, #[trigger] plan[i], batch[i]@, owner)
}
/// regions with index >= n hold what they held in `s0`
pub open spec fn untouched_from(plan: Seq<(Block, u64, usize)>, batch: Seq<&[u8]>, s0: Sys, sys: Sys, n: int) -> bool {
    forall|i: int| n <= i < plan.len() ==> region_same(s0, sys, #[trigger] plan[i], need_of(batch, i))
}
pub open spec fn same_shape(a: Sys, b: Sys) -> bool {
    a.files@.dom() == b.files@.dom() && forall|f: int| #[trigger] a.files@.contains_key(f) ==> a.files@[f].len() == b.files@[f].len()
}

pub proof fn lemma_plan_inside(plan: Seq<(Block, u64, usize)>, batch: Seq<&[u8]>, sys: Sys)
    requires plan_ok(plan, batch, sys),
    ensures plan_inside_files(plan, sys),
{}

pub proof fn lemma_write_step(plan: Seq<(Block, u64, usize)>, batch: Seq<&[u8]>, owner: Seq<char>, s0: Sys, s1: Sys, s2: Sys, i: int)
    requires
        0 <= i < plan.len(), plan.len() == batch.len(), plan_ok(plan, batch, s0), same_shape(s0, s1),
        written_upto(plan, batch, owner, s1, i), untouched_from(plan, batch, s0, s1, i),
        s2.files@ == s1.files@.insert(plan[i].0.mmap.file, write_at(s1.files@[plan[i].0.mmap.file], reg_lo(plan[i]), enc(batch[i]@, owner, (plan[i].0.offset + plan[i].0.limit) as u64))),
    ensures
        written_upto(plan, batch, owner, s2, i + 1), untouched_from(plan, batch, s0, s2, i + 1), same_shape(s0, s2),
{
    broadcast use axiom_enc_len;
    let f = plan[i].0.mmap.file;
    let a = reg_lo(plan[i]);
    let img = enc(batch[i]@, owner, (plan[i].0.offset + plan[i].0.limit) as u64);
    let d1 = s1.files@[f];
    let d2 = write_at(d1, a, img);
    assert(s0.files@.contains_key(f));
    assert(a + img.len() <= d1.len());
    assert(d2.len() == d1.len());
    assert(s2.files@.dom() =~= s1.files@.dom());
    assert forall|k: int| 0 <= k < plan.len() && k != i implies
        s2.files@[(#[trigger] plan[k]).0.mmap.file].subrange(reg_lo(plan[k]), reg_lo(plan[k]) + need_of(batch, k)) == s1.files@[plan[k].0.mmap.file].subrange(reg_lo(plan[k]), reg_lo(plan[k]) + need_of(batch, k)) by {
        let fk = plan[k].0.mmap.file;
        let ak = reg_lo(plan[k]);
        if fk == f {
            if k < i { assert(regions_disjoint(plan[k], need_of(batch, k), plan[i], need_of(batch, i))); } else { assert(regions_disjoint(plan[i], need_of(batch, i), plan[k], need_of(batch, k))); }
            assert(d2.subrange(ak, ak + need_of(batch, k)) =~= d1.subrange(ak, ak + need_of(batch, k)));
        } else {
            assert(s2.files@[fk] == s1.files@[fk]);
        }
    }
    assert(d2.subrange(a, a + img.len()) =~= img);
    assert forall|k: int| 0 <= k < i + 1 && k < plan.len() implies entry_at(s2, #[trigger] plan[k], batch[k]@, owner) by {
        if k < i { assert(entry_at(s1, plan[k], batch[k]@, owner)); }
    }
    assert forall|k: int| i + 1 <= k < plan.len() implies region_same(s0, s2, #[trigger] plan[k], need_of(batch, k)) by {
        assert(region_same(s0, s1, plan[k], need_of(batch, k)));
    }
}

/// planning: the next entry fits behind everything planned into the current block
pub proof fn lemma_plan_push(plan: Seq<(Block, u64, usize)>, batch: Seq<&[u8]>, pb: Block, poff: u64, sys: Sys, b0: Block, off0: u64)
    requires
        plan.len() < batch.len(), batch.len() <= usize::MAX, plan_ok(plan, batch, sys), plan_vs_block(plan, batch, pb, poff), plan_tiled(plan, batch, b0, off0),
        block_in_file(pb, sys), poff + need_of(batch, plan.len() as int) <= pb.limit,
        plan.len() == 0 ==> (pb == b0 && poff == off0) || poff == 0,
        plan.len() > 0 ==> (plan.last().0 == pb && plan.last().1 + need_of(batch, plan.len() - 1) == poff) || (poff == 0 && plan.last().0 != pb),
    ensures ({
        let p2 = plan.push((pb, poff, plan.len() as usize));
        plan_ok(p2, batch, sys) && plan_vs_block(p2, batch, pb, (poff + need_of(batch, plan.len() as int)) as u64) && plan_tiled(p2, batch, b0, off0)
    }),
{
    let n = plan.len() as int;
    let p2 = plan.push((pb, poff, plan.len() as usize));
    assert forall|i: int| 0 <= i < p2.len() implies (#[trigger] p2[i]).2 == i && p2[i].1 + need_of(batch, i) <= p2[i].0.limit && block_in_file(p2[i].0, sys) by {
        if i < n { assert(p2[i] == plan[i]); }
    }
    assert forall|i: int, j: int| 0 <= i < j < p2.len() implies regions_disjoint(#[trigger] p2[i], need_of(batch, i), #[trigger] p2[j], need_of(batch, j)) by {
        assert(p2[i] == plan[i]);
        if j < n { assert(p2[j] == plan[j]); } else {
            if plan[i].0 == pb { } else { assert(blocks_disjoint(plan[i].0, pb)); }
        }
    }
    assert forall|i: int| 0 <= i < p2.len() implies ((#[trigger] p2[i]).0 == pb ==> p2[i].1 + need_of(batch, i) <= poff + need_of(batch, n)) && (p2[i].0 != pb ==> blocks_disjoint(p2[i].0, pb)) by {
        if i < n { assert(p2[i] == plan[i]); }
    }
    assert forall|i: int| 0 <= i < p2.len() - 1 implies ((#[trigger] p2[i + 1]).0 == p2[i].0 && p2[i + 1].1 == p2[i].1 + need_of(batch, i)) || (p2[i + 1].0 != p2[i].0 && p2[i + 1].1 == 0) by {
        assert(p2[i] == plan[i]);
        if i + 1 < n { assert(p2[i + 1] == plan[i + 1]); }
    }
    if n > 0 { assert(p2[0] == plan[0]); }
}

/// planning: switching to a freshly allocated block
pub proof fn lemma_plan_rotate(plan: Seq<(Block, u64, usize)>, batch: Seq<&[u8]>, pb: Block, nb: Block, sys: Sys)
    requires
        plan_ok(plan, batch, sys), block_in_file(pb, sys), pb.limit > 0 || plan.len() == 0, nb.limit > 0,
        forall|i: int| 0 <= i < plan_blocks(plan).push(pb).len() ==> blocks_disjoint(#[trigger] plan_blocks(plan).push(pb)[i], nb),
    ensures plan_vs_block(plan, batch, nb, 0), plan.len() > 0 ==> plan.last().0 != nb, pb.limit > 0 ==> pb != nb,
{
    let held = plan_blocks(plan).push(pb);
    assert forall|i: int| 0 <= i < plan.len() implies ((#[trigger] plan[i]).0 == nb ==> plan[i].1 + need_of(batch, i) <= 0) && (plan[i].0 != nb ==> blocks_disjoint(plan[i].0, nb)) by {
        assert(held[i] == plan[i].0);
        assert(blocks_disjoint(held[i], nb));
        assert(plan[i].0.limit > 0);
    }
    if plan.len() > 0 { assert(held[plan.len() - 1] == plan.last().0); assert(plan.last().0.limit > 0); }
    assert(held[plan.len() as int] == pb);
}

pub open spec fn zero_or_untouched(plan: Seq<(Block, u64, usize)>, batch: Seq<&[u8]>, s0: Sys, sys: Sys) -> bool {
    forall|i: int| 0 <= i < plan.len() ==> sys.files@.contains_key((#[trigger] plan[i]).0.mmap.file)
        && (zero_at(sys.files@[plan[i].0.mmap.file], reg_lo(plan[i])) || region_same(s0, sys, plan[i], need_of(batch, i)))
}

/// rollback: zeroing the header of entry m keeps earlier zeroed headers and leaves regions >= k (k > m) untouched
pub proof fn lemma_rollback_step(plan: Seq<(Block, u64, usize)>, batch: Seq<&[u8]>, s0: Sys, s1: Sys, s2: Sys, m: int, k: int)
    requires
        0 <= m < k <= plan.len(), plan.len() == batch.len(), plan_ok(plan, batch, s0), same_shape(s0, s1),
        headers_zeroed(plan, s1, m), untouched_from(plan, batch, s0, s1, k),
        s2.files@ == s1.files@.insert(plan[m].0.mmap.file, write_at(s1.files@[plan[m].0.mmap.file], reg_lo(plan[m]), Seq::new(256nat, |j: int| 0u8))),
    ensures headers_zeroed(plan, s2, m + 1), untouched_from(plan, batch, s0, s2, k), same_shape(s0, s2),
{
    let f = plan[m].0.mmap.file;
    let a = reg_lo(plan[m]);
    let z = Seq::new(256nat, |j: int| 0u8);
    assert(s0.files@.contains_key(f));
    let d1 = s1.files@[f];
    let d2 = write_at(d1, a, z);
    assert(a + 256 <= d1.len());
    assert(d2.len() == d1.len());
    assert(s2.files@.dom() =~= s1.files@.dom());
    assert forall|i: int| 0 <= i < m + 1 && i < plan.len() implies s2.files@.contains_key((#[trigger] plan[i]).0.mmap.file) && zero_at(s2.files@[plan[i].0.mmap.file], plan[i].0.offset + plan[i].1) by {
        let fi = plan[i].0.mmap.file;
        let ai = reg_lo(plan[i]);
        assert(s0.files@.contains_key(fi));
        if fi == f {
            assert forall|j: int| ai <= j < ai + 256 implies #[trigger] d2[j] == 0u8 by {
                if a <= j < a + 256 { assert(d2[j] == z[j - a]); } else { assert(d2[j] == d1[j]); if i < m { assert(zero_at(d1, ai)); } }
            }
        } else { assert(s2.files@[fi] == s1.files@[fi]); }
    }
    assert forall|i: int| k <= i < plan.len() implies region_same(s0, s2, #[trigger] plan[i], need_of(batch, i)) by {
        assert(region_same(s0, s1, plan[i], need_of(batch, i)));
        let fi = plan[i].0.mmap.file;
        let ai = reg_lo(plan[i]);
        if fi == f {
            assert(regions_disjoint(plan[m], need_of(batch, m), plan[i], need_of(batch, i)));
            assert(d2.subrange(ai, ai + need_of(batch, i)) =~= d1.subrange(ai, ai + need_of(batch, i)));
        } else { assert(s2.files@[fi] == s1.files@[fi]); }
    }
}

pub proof fn lemma_rollback_done(plan: Seq<(Block, u64, usize)>, batch: Seq<&[u8]>, s0: Sys, s1: Sys, k: int)
    requires 0 <= k <= plan.len(), plan_ok(plan, batch, s0), same_shape(s0, s1), headers_zeroed(plan, s1, k), untouched_from(plan, batch, s0, s1, k),
    ensures zero_or_untouched(plan, batch, s0, s1),
{
    assert forall|i: int| 0 <= i < plan.len() implies s1.files@.contains_key((#[trigger] plan[i]).0.mmap.file)
        && (zero_at(s1.files@[plan[i].0.mmap.file], reg_lo(plan[i])) || region_same(s0, s1, plan[i], need_of(batch, i))) by {
        assert(s0.files@.contains_key(plan[i].0.mmap.file));
        if i < k { } else { assert(region_same(s0, s1, plan[i], need_of(batch, i))); }
    }
}

pub proof fn lemma_plan_ok_ext(plan: Seq<(Block, u64, usize)>, batch: Seq<&[u8]>, a: Sys, b: Sys)
    requires a.files == b.files, plan_ok(plan, batch, a),
    ensures plan_ok(plan, batch, b), plan_inside_files(plan, b), untouched_from(plan, batch, b, a, 0), same_shape(b, a),
{
    assert forall|i: int| 0 <= i < plan.len() implies region_same(b, a, #[trigger] plan[i], need_of(batch, i)) by { assert(block_in_file(plan[i].0, a)); }
}
