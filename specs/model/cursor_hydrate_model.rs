// BlockStateTracker::set_checkpointed_true seen from the cursor hydration: a ghost log of the ids marked consumed
pub struct CkptH { pub ckpt: Ghost<Seq<u64>> }
impl CkptH {
    #[verifier::external_body]
    pub fn set_checkpointed_true(&mut self, id: usize) ensures final(self).ckpt@ == old(self).ckpt@.push(id as u64) { unimplemented!() }
}
/// ids marked consumed by a cursor (ib, off): every block before ib, and block ib itself when the cursor stands at its end
pub open spec fn marked_by_cursor(chain: Seq<Block>, ib: int, off: u64) -> Seq<u64> {
    let before = Seq::new(ib as nat, |k: int| chain[k].id);
    if ib < chain.len() && off >= chain[ib].used { before.push(chain[ib].id) } else { before }
}
/// `id` belongs to a block the cursor (ib, off) has completely behind it: a block before ib, or block ib when the cursor stands at its end
pub open spec fn behind_cursor(chain: Seq<Block>, ib: int, off: u64, id: u64) -> bool {
    exists|j: int| #![trigger chain[j]] 0 <= j < chain.len() && chain[j].id == id && (j < ib || (j == ib && off >= chain[j].used))
}
