// C21: the peer address book (octopii/src/openraft/node.rs load_peer_addr_records): replay of the address records.
pub struct Bytes { pub v: Vec<u8> }
#[derive(Clone, Copy)]
pub struct SocketAddr { pub a: u64 }
pub struct PeerAddrRecord { pub peer_id: u64, pub addr: SocketAddr }
pub struct WalH { pub x: u8 }
pub uninterp spec fn wal_records(w: WalH) -> Seq<Bytes>;
impl WalH {
    // WriteAheadLog::read_all (unit c21_read_all): the records behind the cursor, in order (or an error)
    #[verifier::external_body]
    pub fn read_all(&self) -> (r: Result<Vec<Bytes>, ()>) ensures r matches Ok(v) ==> v@ == wal_records(*self), r is Err ==> self.read_all_failed() { unimplemented!() }
    pub uninterp spec fn read_all_failed(&self) -> bool;
}
pub uninterp spec fn decoded_peer(raw: Seq<u8>) -> Option<(u64, SocketAddr)>;
#[verifier::external_body]
pub fn decode_peer(raw: &Bytes) -> (r: Result<PeerAddrRecord, ()>)
    ensures r matches Ok(x) ==> decoded_peer(raw.v@) == Some((x.peer_id, x.addr)), r is Err ==> decoded_peer(raw.v@) is None
{ unimplemented!() }
#[verifier::external_body]
pub fn bytes_take(v: &mut Vec<Bytes>, k: usize) -> (r: Bytes)
    requires k < old(v)@.len(),
    ensures r.v@ == old(v)@[k as int].v@, final(v)@.len() == old(v)@.len(), forall|j: int| 0 <= j < old(v)@.len() && j != k ==> (#[trigger] final(v)@[j]).v@ == old(v)@[j].v@,
{ unimplemented!() }
/// the address book after the first n records: the LATEST record of a peer wins (that is what the running node holds)
pub open spec fn book(raws: Seq<Bytes>, n: int) -> Map<u64, SocketAddr>
    decreases n
{
    if n <= 0 { Map::empty() } else {
        match decoded_peer(raws[n - 1].v@) { Some(p) => book(raws, n - 1).insert(p.0, p.1), None => book(raws, n - 1) }
    }
}
