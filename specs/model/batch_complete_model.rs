pub struct BatchRevertInfo { pub original_offset: u64, pub allocated_block_ids: Vec<u64> }
pub struct GlobalsW { pub unlocked: Ghost<Seq<u64>> }
impl GlobalsW {
    #[verifier::external_body]
    pub fn set_block_unlocked(&mut self, id: usize) ensures final(self).unlocked@ == old(self).unlocked@.push(id as u64) { unimplemented!() }
}
impl Clone for Block {
    #[verifier::external_body]
    fn clone(&self) -> (r: Self) ensures r == *self { unimplemented!() }
}
impl Block {
    #[verifier::external_body]
    pub fn zero_range(&self, sys: &mut Sys, in_block_offset: u64, size: u64) -> (ret: IoResult<()>)
        requires
            old(sys).files@.contains_key(self.mmap.file),
            self.offset + in_block_offset + size <= old(sys).files@[self.mmap.file].len(),
            self.offset + in_block_offset + size <= 0x7fff_ffff_ffff,
        ensures
            final(sys).files@ == old(sys).files@.insert(self.mmap.file, write_at(old(sys).files@[self.mmap.file], self.offset + in_block_offset, Seq::new(size as nat, |i: int| 0u8))),
            ret is Ok,
    { unimplemented!() }
}
// std HashSet<K> used as a "seen" set (R5): only membership matters
pub struct VxSet<K> { pub s: Ghost<Set<K>> }
impl<K> VxSet<K> {
    pub fn new() -> (r: Self) ensures r.s@ == Set::<K>::empty() { VxSet { s: Ghost(Set::empty()) } }
    #[verifier::external_body]
    pub fn insert(&mut self, p: K) -> (r: bool) ensures r == !old(self).s@.contains(p), final(self).s@ == old(self).s@.insert(p) { unimplemented!() }
    #[verifier::external_body]
    pub fn contains(&self, p: &K) -> (r: bool) ensures r == self.s@.contains(*p) { unimplemented!() }
}

pub open spec fn plan_inside_files(plan: Seq<(Block, u64, usize)>, sys: Sys) -> bool {
    forall|i: int| 0 <= i < plan.len() ==> sys.files@.contains_key((#[trigger] plan[i]).0.mmap.file)
        && plan[i].0.offset + plan[i].1 + 256 <= sys.files@[plan[i].0.mmap.file].len() && plan[i].0.offset + plan[i].1 + 256 <= 0x7fff_ffff_ffff
}
pub open spec fn zero_at(d: Seq<u8>, a: int) -> bool { forall|j: int| a <= j < a + 256 ==> #[trigger] d[j] == 0u8 }
/// the header of every planned entry with index < n is zeroed: recovery cannot resurrect any entry of the failed batch
pub open spec fn headers_zeroed(plan: Seq<(Block, u64, usize)>, sys: Sys, n: int) -> bool {
    forall|i: int| 0 <= i < n && i < plan.len() ==> sys.files@.contains_key((#[trigger] plan[i]).0.mmap.file) && zero_at(sys.files@[plan[i].0.mmap.file], plan[i].0.offset + plan[i].1)
}
pub open spec fn same_file_lengths(a: Sys, b: Sys) -> bool {
    a.files@.dom() == b.files@.dom() && forall|f: int| #[trigger] a.files@.contains_key(f) ==> a.files@[f].len() == b.files@[f].len()
}
pub proof fn lemma_zero_step(plan: Seq<(Block, u64, usize)>, s0: Sys, s1: Sys, i: int)
    requires
        0 <= i < plan.len(), headers_zeroed(plan, s0, i), plan_inside_files(plan, s0),
        s1.files@ == s0.files@.insert(plan[i].0.mmap.file, write_at(s0.files@[plan[i].0.mmap.file], plan[i].0.offset + plan[i].1, Seq::new(256nat, |j: int| 0u8))),
    ensures headers_zeroed(plan, s1, i + 1), plan_inside_files(plan, s1), same_file_lengths(s0, s1)
{
    let f = plan[i].0.mmap.file;
    let a = plan[i].0.offset + plan[i].1;
    let z = Seq::new(256nat, |j: int| 0u8);
    let d0 = s0.files@[f];
    let d1 = write_at(d0, a, z);
    assert(d1.len() == d0.len());
    assert forall|k: int| 0 <= k < i + 1 && k < plan.len() implies s1.files@.contains_key((#[trigger] plan[k]).0.mmap.file) && zero_at(s1.files@[plan[k].0.mmap.file], plan[k].0.offset + plan[k].1) by {
        let fk = plan[k].0.mmap.file;
        let ak = plan[k].0.offset + plan[k].1;
        if fk == f {
            assert forall|j: int| ak <= j < ak + 256 implies #[trigger] d1[j] == 0u8 by {
                if a <= j < a + 256 { assert(d1[j] == z[j - a]); } else { assert(d1[j] == d0[j]); if k < i { assert(zero_at(d0, ak)); } }
            }
        } else {
            assert(s1.files@[fk] == s0.files@[fk]);
        }
    }
    assert forall|k: int| 0 <= k < plan.len() implies s1.files@.contains_key((#[trigger] plan[k]).0.mmap.file)
        && plan[k].0.offset + plan[k].1 + 256 <= s1.files@[plan[k].0.mmap.file].len() && plan[k].0.offset + plan[k].1 + 256 <= 0x7fff_ffff_ffff by {
        if plan[k].0.mmap.file != f { assert(s1.files@[plan[k].0.mmap.file] == s0.files@[plan[k].0.mmap.file]); }
    }
    assert(s0.files@.dom() =~= s1.files@.dom());
}

/// the storage handle of a block is the one of the file its path names (SharedMmapKeeper: one handle per path)
pub uninterp spec fn file_of_path(p: Seq<char>) -> int;
/// every file the plan writes to has been flushed since its last write
pub open spec fn plan_synced(plan: Seq<(Block, u64, usize)>, sys: Sys, n: int) -> bool {
    forall|i: int| 0 <= i < n && i < plan.len() ==> sys.synced@.contains((#[trigger] plan[i]).0.mmap.file)
}
pub open spec fn seen_synced(seen: Set<String>, sys: Sys) -> bool {
    forall|p: String| #[trigger] seen.contains(p) ==> sys.synced@.contains(file_of_path(p@))
}

pub open spec fn plan_paths_ok(plan: Seq<(Block, u64, usize)>) -> bool {
    forall|i: int| 0 <= i < plan.len() ==> (#[trigger] plan[i]).0.mmap.file == file_of_path(plan[i].0.file_path@)
}
