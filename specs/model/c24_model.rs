// C24 model (R13: one connection, one task). The socket is a ghost byte stream: `input` is everything the client
// will ever send, `rpos` how much has been consumed, `out` what has been written, `sent` the number of responses.
pub struct IoE { pub eof: bool }
impl IoE {
    // `e.kind() == std::io::ErrorKind::UnexpectedEof`
    pub fn kind_is_unexpected_eof(&self) -> (r: bool) ensures r == self.eof { self.eof }
}
// anyhow::Error: every error the handler propagates is (a wrapper of) an I/O error; only "is it a clean EOF" matters
pub type AnyErr = IoE;
pub type AResult<T> = Result<T, AnyErr>;
pub fn io_into_anyhow(e: IoE) -> (r: AnyErr) { e }

pub struct SockG { pub input: Ghost<Seq<u8>>, pub rpos: Ghost<int>, pub out: Ghost<Seq<u8>>, pub sent: Ghost<Seq<Seq<u8>>> }

pub open spec fn sock_wf(s: SockG) -> bool { 0 <= s.rpos@ <= s.input@.len() }

impl SockG {
    // tokio AsyncReadExt::read_exact: all-or-error. On success exactly buf.len() bytes are consumed.
    // On UnexpectedEof the stream is exhausted (fewer than buf.len() bytes were left).
    #[verifier::external_body]
    pub fn read_exact(&mut self, buf: &mut [u8]) -> (r: Result<(), IoE>)
        requires sock_wf(*old(self))
        ensures
            sock_wf(*final(self)),
            final(self).input == old(self).input, final(self).out == old(self).out, final(self).sent == old(self).sent,
            final(buf)@.len() == old(buf)@.len(),
            match r {
                Ok(_) => old(self).rpos@ + old(buf)@.len() <= old(self).input@.len()
                    && final(self).rpos@ == old(self).rpos@ + old(buf)@.len()
                    && final(buf)@ == old(self).input@.subrange(old(self).rpos@, old(self).rpos@ + old(buf)@.len()),
                Err(e) => e.eof ==> (old(self).rpos@ + old(buf)@.len() > old(self).input@.len() && final(self).rpos@ == old(self).input@.len()),
            },
    { unimplemented!() }

    // AsyncWriteExt::write_all
    #[verifier::external_body]
    pub fn write_all(&mut self, bytes: &[u8]) -> (r: Result<(), IoE>)
        ensures
            final(self).input == old(self).input, final(self).rpos == old(self).rpos, final(self).sent == old(self).sent,
            r is Ok ==> final(self).out@ == old(self).out@ + bytes@,
    { unimplemented!() }
}

pub open spec fn le32(b: Seq<u8>) -> int { b[0] as int + 256 * (b[1] as int) + 65536 * (b[2] as int) + 16777216 * (b[3] as int) }
#[verifier::external_body]
pub fn u32_from_le_bytes(b: [u8; 4]) -> (r: u32) ensures r as int == le32(b@) { u32::from_le_bytes(b) }
#[verifier::external_body]
pub fn u32_to_le_bytes(x: u32) -> (r: [u8; 4]) ensures le32(r@) == x as int { x.to_le_bytes() }

#[verifier::external_body]
pub fn string_from_utf8(buf: Vec<u8>) -> (r: Result<String, ()>) { unimplemented!() }
pub struct CtrlH { pub id: int }
impl Clone for CtrlH { fn clone(&self) -> (r: Self) ensures r == *self { CtrlH { id: self.id } } }
// handle_command(text, controller): arbitrary outcome (its PUT/GET behaviour is a separate unit)
#[verifier::external_body]
pub fn handle_command(line: &str, controller: CtrlH) -> (r: AResult<String>) { unimplemented!() }
#[verifier::external_body]
pub fn format_err(e: AnyErr) -> (r: String) { unimplemented!() }
#[verifier::external_body]
pub fn str_from_utf8<'a>(buf: &'a Vec<u8>) -> (r: Result<&'a str, ()>) { unimplemented!() }
pub trait VxTrimEnd { fn vx_trim_end<'a>(&'a self) -> (r: &'a str); fn vx_chars_count(&self) -> (r: usize); }
impl VxTrimEnd for String {
    #[verifier::external_body] fn vx_trim_end<'a>(&'a self) -> (r: &'a str) { self.trim_end() }
    #[verifier::external_body] fn vx_chars_count(&self) -> (r: usize) ensures r == self@.len() { self.chars().count() }
}
impl VxTrimEnd for str {
    #[verifier::external_body] fn vx_trim_end<'a>(&'a self) -> (r: &'a str) { self.trim_end() }
    #[verifier::external_body] fn vx_chars_count(&self) -> (r: usize) ensures r == self@.len() { self.chars().count() }
}
#[verifier::external_body]
pub fn str_as_bytes(s: &str) -> (r: &[u8]) ensures r@.len() == str_utf8_len(s@) { unimplemented!() }
pub uninterp spec fn str_utf8_len(s: Seq<char>) -> nat;

// ---- framing specification: a frame is its 4-byte little-endian length plus exactly that many body bytes,
// whatever the length says (zero, oversized and valid frames alike)
pub open spec fn frame_len_at(input: Seq<u8>, pos: int) -> int { le32(input.subrange(pos, pos + 4)) }
pub open spec fn next_frame(input: Seq<u8>, pos: int) -> int { pos + 4 + frame_len_at(input, pos) }
/// pos is the start of the k-th frame (k frames lie completely before it)
pub open spec fn step_ok(input: Seq<u8>, p: int, q: int) -> bool { 0 <= p && p + 4 <= input.len() && next_frame(input, p) == q }
pub open spec fn boundary(input: Seq<u8>, pos: int, k: nat) -> bool
    decreases k
{
    if k == 0 { pos == 0 } else { exists|p: int| #[trigger] step_ok(input, p, pos) && boundary(input, p, (k - 1) as nat) }
}

pub proof fn lemma_boundary_step(input: Seq<u8>, p: int, k: nat, q: int)
    ensures (boundary(input, p, k) && 0 <= p && p + 4 <= input.len() && q == next_frame(input, p)) ==> boundary(input, q, k + 1)
{
    if boundary(input, p, k) && 0 <= p && p + 4 <= input.len() && q == next_frame(input, p) {
        assert(step_ok(input, p, q));
        assert(((k + 1) - 1) as nat == k);
    }
}

pub proof fn lemma_le32_nonneg(b: Seq<u8>) ensures le32(b) >= 0 {}

/// boundaries of a stream are unaffected by appending bytes after them
pub proof fn lemma_boundary_extend(s: Seq<u8>, t: Seq<u8>, pos: int, k: nat)
    requires boundary(s, pos, k)
    ensures boundary(s + t, pos, k)
    decreases k
{
    if k > 0 {
        let p = choose|p: int| #[trigger] step_ok(s, p, pos) && boundary(s, p, (k - 1) as nat);
        lemma_boundary_extend(s, t, p, (k - 1) as nat);
        assert((s + t).subrange(p, p + 4) =~= s.subrange(p, p + 4));
        assert(step_ok(s + t, p, pos));
    }
}

/// appending one length-prefixed frame to an output stream that ends on a boundary gives one more frame
pub proof fn lemma_boundary_append(out: Seq<u8>, l: Seq<u8>, b: Seq<u8>, k: nat)
    requires boundary(out, out.len() as int, k), l.len() == 4, le32(l) == b.len()
    ensures boundary(out + (l + b), (out + (l + b)).len() as int, k + 1)
{
    let o2 = out + (l + b);
    lemma_boundary_extend(out, l + b, out.len() as int, k);
    assert(o2.subrange(out.len() as int, out.len() as int + 4) =~= l);
    assert(step_ok(o2, out.len() as int, o2.len() as int));
    assert(((k + 1) - 1) as nat == k);
}

// every response string the server produces fits the u32 length prefix (literals, "ERR ..", "OK <entry>" with entries <= 1 GiB)
pub open spec fn responses_fit() -> bool { forall|s: Seq<char>| #[trigger] str_utf8_len(s) <= u32::MAX }

/// after handling one frame: the reader advanced exactly to the next frame and exactly one response frame was written
pub proof fn lemma_frame_done(input: Seq<u8>, p0: int, k0: nat, rpos: int, out0: Seq<u8>, out: Seq<u8>)
    ensures (boundary(input, p0, k0) && boundary(out0, out0.len() as int, k0) && 0 <= p0 && p0 + 4 <= input.len() && rpos == next_frame(input, p0)
             && (exists|l: Seq<u8>, b: Seq<u8>| l.len() == 4 && le32(l) == b.len() && out == out0 + #[trigger] (l + b)))
            ==> boundary(input, rpos, k0 + 1) && boundary(out, out.len() as int, k0 + 1)
{
    if boundary(input, p0, k0) && boundary(out0, out0.len() as int, k0) && 0 <= p0 && p0 + 4 <= input.len() && rpos == next_frame(input, p0)
        && (exists|l: Seq<u8>, b: Seq<u8>| l.len() == 4 && le32(l) == b.len() && out == out0 + #[trigger] (l + b)) {
        lemma_boundary_step(input, p0, k0, rpos);
        let (l, b) = choose|l: Seq<u8>, b: Seq<u8>| l.len() == 4 && le32(l) == b.len() && out == out0 + #[trigger] (l + b);
        lemma_boundary_append(out0, l, b, k0);
    }
}
