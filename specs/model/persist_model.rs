// C09 model: AtLeastOnce persists on every `every`-th consuming read, so at most every-1 delivered
// entries are un-persisted at any time (= the redelivery bound after a crash).
pub open spec fn every_of(persist_every: u32) -> u32 { if persist_every >= 1 { persist_every } else { 1 } }

pub open spec fn should_persist_spec(persist_every: u32, before: u32, ret: bool, after: u32) -> bool {
    let every = every_of(persist_every);
    let next: int = if before == u32::MAX { u32::MAX as int } else { before + 1 };
    if next >= every { ret && after == 0 } else { !ret && after == next }
}

pub open spec fn frame_only_counter(a: ColReaderInfo, b: ColReaderInfo) -> bool {
    &&& a.chain == b.chain
    &&& a.cur_block_idx == b.cur_block_idx
    &&& a.cur_block_offset == b.cur_block_offset
    &&& a.tail_block_id == b.tail_block_id
    &&& a.tail_offset == b.tail_offset
    &&& a.hydrated_from_index == b.hydrated_from_index
}
