// Loading the cursor file (index.rs new_in): the aligned copy, the validating entry point and the deserializer of rkyv.
// A-RKYV: validation is sound (an archive that validates is deserialized without touching memory outside it), the byte
// image written by to_bytes validates and decodes back to the map it was made from.
pub uninterp spec fn valid_index_archive(b: Seq<u8>) -> bool;
pub uninterp spec fn index_decode(b: Seq<u8>) -> Map<String, BlockPos>;
pub broadcast axiom fn axiom_index_round_trip(m: Map<String, BlockPos>)
    ensures valid_index_archive(#[trigger] index_bytes(m)) && index_decode(index_bytes(m)) == m;
pub struct AlignedVecH { pub v: Ghost<Seq<u8>> }
impl AlignedVecH {
    #[verifier::external_body]
    pub fn with_capacity(n: usize) -> (r: Self) ensures r.v@ == Seq::<u8>::empty() { unimplemented!() }
    #[verifier::external_body]
    pub fn extend_from_slice(&mut self, b: &Vec<u8>) ensures final(self).v@ == old(self).v@ + b@ { unimplemented!() }
}
pub struct ArchivedIndexH { pub b: Ghost<Seq<u8>> }
// rkyv::check_archived_root::<HashMap<String, BlockPos>>(&aligned[..]): Ok exactly for archives that validate
#[verifier::external_body]
pub fn rkyv_check_archived_root_index(a: &AlignedVecH) -> (r: Result<ArchivedIndexH, ()>)
    ensures (r is Ok) == valid_index_archive(a.v@), r matches Ok(x) ==> x.b@ == a.v@
{ unimplemented!() }
impl ArchivedIndexH {
    // archived.deserialize(&mut rkyv::Infallible).ok(): only ever reached through a validated archive
    #[verifier::external_body]
    pub fn deserialize_infallible(&self) -> (r: Option<HashMap<String, BlockPos>>)
        requires valid_index_archive(self.b@),
        ensures r matches Some(m) ==> m@ == index_decode(self.b@)
    { unimplemented!() }
}
