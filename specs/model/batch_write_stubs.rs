// stubs that need the Writer mirror / constants (placed after them)
#[verifier::external_body]
pub fn batch_total_bytes(batch: &[&[u8]]) -> (r: u64) { unimplemented!() }
#[verifier::external_body]
pub fn batch_has_oversized(batch: &[&[u8]], max_entry: u64) -> (r: bool)
    ensures r == exists|i: int| 0 <= i < batch@.len() && 256 + (#[trigger] batch@[i])@.len() > max_entry
{ unimplemented!() }
#[verifier::external_body]
pub fn use_fd_backend() -> (r: bool) { unimplemented!() }
pub uninterp spec fn uring_init_failure(e: IoError) -> bool;
#[verifier::external_body]
pub fn is_uring_init_failure(e: &IoError) -> (r: bool) ensures r == uring_init_failure(*e) { unimplemented!() }

// Writer::submit_batch_via_io_uring seen from batch_write: phase 3 (completion check, rollback, publication of the offset)
// is proved in unit batch_complete, phases 1-2 (building the buffers with the same header layout as Block::write and pushing
// one write per plan element) in unit batch_submit; what is ASSUMED here is their composition (A-URING: a completed write puts
// its buffer at its offset).
#[verifier::external_body]
pub fn submit_batch_via_io_uring_h(col: &str, sys: &mut Sys, g: &mut GlobalsW, Ghost(s0): Ghost<Sys>, write_plan: &Vec<(Block, u64, usize)>, batch: &[&[u8]], revert_info: &mut BatchRevertInfo,
                                   cur_offset: &mut u64, planning_offset: u64, total_bytes: usize) -> (ret: IoResult<()>)
    requires plan_inside_files(write_plan@, *old(sys)), *old(cur_offset) == old(revert_info).original_offset,
    ensures
        same_shape(*old(sys), *final(sys)),
        *final(revert_info) == *old(revert_info),
        ret is Ok ==> *final(cur_offset) == planning_offset && written_upto(write_plan@, batch@, col@, *final(sys), write_plan@.len() as int) && plan_synced(write_plan@, *final(sys), write_plan@.len() as int),
        ret is Err ==> *final(cur_offset) == old(revert_info).original_offset,
        ret matches Err(e) ==> (uring_init_failure(e) ==> *final(sys) == *old(sys)),
        ret matches Err(e) ==> (!uring_init_failure(e) ==> headers_zeroed(write_plan@, *final(sys), write_plan@.len() as int)),
{ unimplemented!() }

/// C16: the portable path is taken exactly when io_uring cannot be set up: batch_write recognises that case by a substring
/// of the error text that submit_batch_via_io_uring produces; both literals are read from the source on every run.
pub proof fn fallback_trigger_matches_error_text()
    ensures FALLBACK_TEXT_MATCHES,
{
    assert(FALLBACK_TEXT_MATCHES); //@L C16:io_uring_setup_failure_text_is_the_text_the_fallback_test_looks_for
}
