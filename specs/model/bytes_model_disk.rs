// ---- instantiation for read-only units: the fixed disk
pub open spec fn hdr_meta(f: int, a: int) -> Metadata { hdr_meta_d(disk(f), a) }
pub open spec fn entry_size(f: int, a: int) -> int { entry_size_d(disk(f), a) }
pub open spec fn entry_ok(f: int, a: int) -> bool { entry_ok_d(disk(f), a) }
pub open spec fn entry_end(f: int, a: int) -> int { entry_end_d(disk(f), a) }
pub open spec fn packed(f: int, a: int, b: int) -> bool { packed_d(disk(f), a, b) }

/// block b's bytes from in-block offset `off` to `upto` are a tiling of entries
pub open spec fn block_packed_from(b: Block, off: u64, upto: u64) -> bool {
    off <= upto && packed(b.mmap.file, b.offset + off, b.offset + upto) && b.offset + b.limit <= disk(b.mmap.file).len()
}
