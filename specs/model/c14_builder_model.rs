// the constructed instance, as far as C14 is concerned: where its files go
pub struct WalrusH { pub root: Ghost<Seq<Seq<char>>> }
pub type IoResult<T> = Result<T, IoError>;
pub struct IoError { pub k: u8 }

// Walrus::with_paths(Arc::new(paths), mode, schedule): every file of the instance is created through `paths`
// (create_new_file / index_path join a single file name onto paths.root)
#[verifier::external_body]
pub fn walrus_with_paths(paths: WalPathManager, mode: ReadConsistency, schedule: FsyncSchedule) -> (r: IoResult<WalrusH>)
    ensures r matches Ok(w) ==> w.root@ == path_view(&paths.root)
{ unimplemented!() }

pub open spec fn builder_base(b: WalrusBuilder) -> Seq<Seq<char>> {
    match b.data_dir { Some(d) => path_view(&d), None => data_dir_view() }
}
