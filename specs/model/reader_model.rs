// Reader mirror (R15/R16): the per-column Arc<RwLock<ColReaderInfo>> cells are the map's values.
pub struct Reader { pub data: HashMap<String, ColReaderInfo> }

impl Clone for Block {
    #[verifier::external_body]
    fn clone(&self) -> (r: Self) ensures r == *self { unimplemented!() }
}

pub open spec fn min_u64(a: u64, b: u64) -> u64 { if a < b { a } else { b } }

/// what sealing `b` onto a column state (chain0, cursor, tail progress, ..) must produce: the block is appended; a reader that
/// was tailing exactly this block continues at the same offset inside the now sealed block; nothing else moves
pub open spec fn col_after_append_vals(chain0: Seq<Block>, idx0: usize, off0: u64, tid0: u64, toff0: u64, rsp0: u32, hyd0: bool, c2: ColReaderInfo, b: Block) -> bool {
    &&& c2.chain@ == chain0.push(b)
    &&& c2.tail_block_id == tid0 && c2.tail_offset == toff0
    &&& c2.reads_since_persist == rsp0 && c2.hydrated_from_index == hyd0
    &&& if tid0 == b.id { c2.cur_block_idx == chain0.len() && c2.cur_block_offset == min_u64(toff0, b.used) }
        else { c2.cur_block_idx == idx0 && c2.cur_block_offset == off0 }
}
pub open spec fn col_after_append(m: Map<String, ColReaderInfo>, k: String, c2: ColReaderInfo, b: Block) -> bool {
    if m.contains_key(k) {
        let c = m[k];
        col_after_append_vals(c.chain@, c.cur_block_idx, c.cur_block_offset, c.tail_block_id, c.tail_offset, c.reads_since_persist, c.hydrated_from_index, c2, b)
    } else {
        col_after_append_vals(Seq::<Block>::empty(), 0, 0, 0, 0, 0, false, c2, b)
    }
}
