// Byte-level model of the on-disk entry format (DESIGN 3.4), over the fixed `disk(file)` of read-only units.
// Entry at absolute file offset a:  [len_lo, len_hi, rkyv(Metadata) (len bytes), zero padding to 256] ++ payload.
pub open spec fn meta_len_of(b0: u8, b1: u8) -> usize { (b0 as usize) | ((b1 as usize) << 8) }

pub open spec fn hdr_meta(f: int, a: int) -> Metadata {
    let d = disk(f);
    spec_decode(d.subrange(a + 2, a + 2 + meta_len_of(d[a], d[a + 1])))
}
pub open spec fn entry_size(f: int, a: int) -> int { hdr_meta(f, a).read_size as int }

pub open spec fn entry_ok(f: int, a: int) -> bool {
    let d = disk(f);
    &&& 0 <= a && a + 256 <= d.len()
    &&& 1 <= meta_len_of(d[a], d[a + 1]) <= 254
    &&& a + 256 + entry_size(f, a) <= d.len()
    &&& fnv1a(d.subrange(a + 256, a + 256 + entry_size(f, a))) == hdr_meta(f, a).checksum
}
pub open spec fn entry_end(f: int, a: int) -> int { a + 256 + entry_size(f, a) }

/// entries tile the byte range [a, b) of file f exactly
pub open spec fn packed(f: int, a: int, b: int) -> bool
    decreases b - a
{
    if a >= b { a == b } else { entry_ok(f, a) && entry_end(f, a) <= b && packed(f, entry_end(f, a), b) }
}

/// the payloads of the entries tiling [a, b)
pub open spec fn payloads(f: int, a: int, b: int) -> Seq<Seq<u8>>
    decreases b - a
{
    if a >= b || !entry_ok(f, a) || entry_end(f, a) > b { Seq::empty() }
    else { seq![disk(f).subrange(a + 256, entry_end(f, a))] + payloads(f, entry_end(f, a), b) }
}

pub open spec fn fnv1a_step(h: u64, b: u8) -> u64 { ((h ^ (b as u64)) as int * 0x00000100000001B3int % 0x1_0000_0000_0000_0000int) as u64 }
pub open spec fn fnv1a(s: Seq<u8>) -> u64
    decreases s.len()
{
    if s.len() == 0 { 0xcbf29ce484222325u64 } else { fnv1a_step(fnv1a(s.drop_last()), s.last()) }
}

/// block b's first `upto` bytes are a tiling of entries, and `off` is an entry boundary inside them
pub open spec fn block_packed_from(b: Block, off: u64, upto: u64) -> bool {
    off <= upto && packed(b.mmap.file, b.offset + off, b.offset + upto) && b.offset + b.limit <= disk(b.mmap.file).len()
}
