// C25 model: the specified key format and the lemmas that make decode a left inverse of encode.
pub open spec fn key_spec(t: Seq<char>, n: u64) -> Seq<char> {
    seq!['t', '_'] + t + seq!['_', 's', '_'] + dec_digits(n as nat)
}

// format!("t_{}_s_{}", topic, segment)
#[verifier::external_body]
pub fn format_t_s<N: VxDec + std::fmt::Display>(topic: &str, segment: N) -> (r: String)
    ensures r@ == seq!['t', '_'] + topic@ + seq!['_', 's', '_'] + dec_digits(segment.dec_value())
{
    format!("t_{}_s_{}", topic, segment)
}

pub open spec fn sep() -> Seq<char> { seq!['_', 's', '_'] }

pub proof fn lemma_key_shape(t: Seq<char>, n: u64)
    ensures
        is_last_occ(key_spec(t, n), sep(), 2 + t.len() as int),
        key_spec(t, n).subrange(0, 2 + t.len() as int) == seq!['t', '_'] + t,
        key_spec(t, n).subrange(2 + t.len() as int + 3, key_spec(t, n).len() as int) == dec_digits(n as nat),
        key_spec(t, n).len() == 2 + t.len() as int + 3 + dec_digits(n as nat).len(),
{
    reveal(is_last_occ);
    axiom_dec_digits(n as nat);
    let k = key_spec(t, n);
    let d = dec_digits(n as nat);
    let p = 2 + t.len() as int;
    assert(k.len() == p + 3 + d.len());
    assert(k.subrange(p as int, p + 3) =~= sep());
    assert(k.subrange(0, p as int) =~= seq!['t', '_'] + t);
    assert(k.subrange(p + 3, k.len() as int) =~= d);
    assert forall|j: int| j > p implies !occurs_at(k, sep(), j) by {
        if occurs_at(k, sep(), j) {
            let w = k.subrange(j, j + 3);
            assert(w == sep());
            assert(w[0] == '_' && w[1] == 's' && w[2] == '_');
            assert(w[0] == k[j] && w[1] == k[j + 1] && w[2] == k[j + 2]);
            if j == p + 1 { assert(k[j] == 's'); }
            else if j == p + 2 { assert(k[j + 1] == d[0]); assert(is_dec_digit_c(d[0])); }
            else { assert(k[j] == d[j - p - 3]); assert(is_dec_digit_c(d[j - p - 3])); }
        }
    }
}

/// one-to-one: distinct (topic, segment) pairs have distinct keys
pub proof fn lemma_key_injective(t1: Seq<char>, n1: u64, t2: Seq<char>, n2: u64)
    requires key_spec(t1, n1) == key_spec(t2, n2)
    ensures t1 == t2 && n1 == n2
{
    lemma_key_shape(t1, n1);
    lemma_key_shape(t2, n2);
    let k = key_spec(t1, n1);
    let p1 = 2 + t1.len() as int;
    let p2 = 2 + t2.len() as int;
    reveal(is_last_occ);
    // both are the last occurrence of the separator in the same string
    if p1 < p2 { assert(occurs_at(k, sep(), p2 as int)); assert(false); }
    if p2 < p1 { assert(occurs_at(k, sep(), p1 as int)); assert(false); }
    assert(seq!['t', '_'] + t1 == seq!['t', '_'] + t2);
    assert(t1 =~= (seq!['t', '_'] + t1).subrange(2, 2 + t1.len() as int));
    assert(t2 =~= (seq!['t', '_'] + t2).subrange(2, 2 + t2.len() as int));
    axiom_parse_dec_digits(n1);
    axiom_parse_dec_digits(n2);
}

/// everything parse_wal_key needs to know about a string that is a specified key
pub proof fn lemma_decode_ready(k: Seq<char>)
    ensures forall|t: Seq<char>, n: u64| k == #[trigger] key_spec(t, n) ==> {
        &&& is_last_occ(k, sep(), 2 + t.len() as int)
        &&& has_occurrence(k, sep())
        &&& k.subrange(0, 2 + t.len() as int) == seq!['t', '_'] + t
        &&& is_prefix_of(seq!['t', '_'], seq!['t', '_'] + t)
        &&& (seq!['t', '_'] + t).subrange(2, 2 + t.len() as int) == t
        &&& k.subrange(2 + t.len() as int + 3, k.len() as int) == dec_digits(n as nat)
        &&& parse_u64_spec(dec_digits(n as nat)) == Some(n)
    }
{
    assert forall|t: Seq<char>, n: u64| k == #[trigger] key_spec(t, n) implies {
        &&& is_last_occ(k, sep(), 2 + t.len() as int)
        &&& has_occurrence(k, sep())
        &&& k.subrange(0, 2 + t.len() as int) == seq!['t', '_'] + t
        &&& is_prefix_of(seq!['t', '_'], seq!['t', '_'] + t)
        &&& (seq!['t', '_'] + t).subrange(2, 2 + t.len() as int) == t
        &&& k.subrange(2 + t.len() as int + 3, k.len() as int) == dec_digits(n as nat)
        &&& parse_u64_spec(dec_digits(n as nat)) == Some(n)
    } by {
        lemma_key_shape(t, n);
        lemma_last_occ_occurs(k, sep(), 2 + t.len() as int);
        axiom_parse_dec_digits(n);
        let tt = seq!['t', '_'] + t;
        assert(tt.subrange(0, 2) =~= seq!['t', '_']);
        assert(tt.subrange(2, 2 + t.len() as int) =~= t);
    }
}
