// BlockAllocator::lock / unlock (spin lock on an AtomicBool), as operations on the flag field only (so they do not
// conflict with the `&mut next_block` obtained from the UnsafeCell). In SEQ mode acquiring a held lock never returns.
pub fn vx_lock(l: &mut bool)
    requires !*old(l)
    ensures *final(l)
{ *l = true; }
pub fn vx_unlock(l: &mut bool)
    ensures !*final(l)
{ *l = false; }
