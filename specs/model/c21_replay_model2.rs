// WalLogStore: the in-memory store (tokio mutex elided) + the WAL it persists records to (ghost record list)
pub struct WalRecLog { pub persisted: Ghost<Seq<WalLogRecord>> }
pub struct WalLogStore { pub inner: MemLogStoreInner, pub wal: WalRecLog }
// WalLogStore::persist_record: bincode-serialise + WriteAheadLog::append: on Ok the record is the next one recover_from_wal will
// decode (A-BINCODE round trip + C01 for the WAL), on Err nothing was appended
#[verifier::external_body]
pub fn persist_record(wal: &mut WalRecLog, record: &WalLogRecord) -> (r: IoResult<()>)
    ensures r is Ok ==> final(wal).persisted@ == old(wal).persisted@.push(*record), r is Err ==> final(wal).persisted == old(wal).persisted
{ unimplemented!() }
/// what the next start will rebuild (replay of everything persisted) is what the running store holds
pub open spec fn in_sync(s: WalLogStore, s_init: St) -> bool { replayed(s.wal.persisted@, s_init, st(s.inner)) }
