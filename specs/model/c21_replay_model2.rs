// (placeholder for later additions)
