pub struct ColGuard { pub tok: u8 }   // stand-in for the held column write guard (only `.is_some()` is used by the region)

pub struct Globals { pub ckpt_calls: Ghost<Seq<u64>> }
impl Globals {
    #[verifier::external_body]
    pub fn set_checkpointed_true(&mut self, block_id: usize)
        ensures final(self).ckpt_calls@ == old(self).ckpt_calls@.push(block_id as u64)
    { unimplemented!() }
}
impl Clone for Block {
    #[verifier::external_body]
    fn clone(&self) -> (r: Self) ensures r == *self { unimplemented!() }
}

pub open spec fn wf_block(b: Block) -> bool {
    b.used <= b.limit && b.limit <= 0x4000_0000 && b.offset + b.limit <= 0xFFFF_FFFF_FFFF
}

/// some sealed block at or after the cursor still holds bytes the cursor has not passed
pub open spec fn sealed_unconsumed(chain: Seq<Block>, idx: int, off: u64) -> bool {
    exists|i: int| idx <= i < chain.len() && (if i == idx { off } else { 0 }) < (#[trigger] chain[i]).used
}

/// sealed ranges come in chain order, one per block, inside the block; the tail range (if any) is last
pub open spec fn plan_ordered_upto(plan: Seq<ReadPlan>, chain: Seq<Block>, from: int, upto: int) -> bool {
    &&& forall|k: int| 0 <= k < plan.len() ==> !(#[trigger] plan[k]).is_tail && plan[k].chain_idx is Some
            && from <= plan[k].chain_idx->Some_0 < upto && plan[k].chain_idx->Some_0 < chain.len()
            && plan[k].blk == chain[plan[k].chain_idx->Some_0 as int] && plan[k].end <= plan[k].blk.used
    &&& forall|j: int, k: int| 0 <= j < k < plan.len() ==> (#[trigger] plan[j]).chain_idx->Some_0 < (#[trigger] plan[k]).chain_idx->Some_0
    &&& forall|k: int| 1 <= k < plan.len() ==> (#[trigger] plan[k]).start == 0
}
pub open spec fn plan_ordered(plan: Seq<ReadPlan>, chain: Seq<Block>, from: int) -> bool {
    if plan.len() > 0 && plan.last().is_tail {
        plan_ordered_upto(plan.drop_last(), chain, from, chain.len() as int) && plan.last().chain_idx is None
    } else {
        plan_ordered_upto(plan, chain, from, chain.len() as int)
    }
}

pub proof fn lemma_plan_push(plan: Seq<ReadPlan>, chain: Seq<Block>, from: int, idx: usize, p: ReadPlan)
    requires
        plan_ordered_upto(plan, chain, from, idx as int), from <= idx < chain.len(),
        !p.is_tail, p.chain_idx == Some(idx), p.blk == chain[idx as int], p.end <= p.blk.used,
        plan.len() > 0 ==> p.start == 0,
    ensures plan_ordered_upto(plan.push(p), chain, from, idx + 1)
{
    let q = plan.push(p);
    assert forall|k: int| 0 <= k < q.len() implies !(#[trigger] q[k]).is_tail && q[k].chain_idx is Some
            && from <= q[k].chain_idx->Some_0 < idx + 1 && q[k].chain_idx->Some_0 < chain.len()
            && q[k].blk == chain[q[k].chain_idx->Some_0 as int] && q[k].end <= q[k].blk.used by {
        if k < plan.len() { assert(q[k] == plan[k]); } else { assert(q[k] == p); }
    }
    assert forall|j: int, k: int| 0 <= j < k < q.len() implies (#[trigger] q[j]).chain_idx->Some_0 < (#[trigger] q[k]).chain_idx->Some_0 by {
        assert(q[j] == plan[j]);
        assert(plan[j].chain_idx->Some_0 < idx);
        if k < plan.len() { assert(q[k] == plan[k]); } else { assert(q[k] == p); }
    }
    assert forall|k: int| 1 <= k < q.len() implies (#[trigger] q[k]).start == 0 by {
        if k < plan.len() { assert(q[k] == plan[k]); }
    }
}
pub proof fn lemma_plan_upto_mono(plan: Seq<ReadPlan>, chain: Seq<Block>, from: int, a: int, b: int)
    requires plan_ordered_upto(plan, chain, from, a), a <= b
    ensures plan_ordered_upto(plan, chain, from, b)
{}

pub open spec fn packed_chain(chain: Seq<Block>, idx: int, off: u64) -> bool {
    forall|i: int| idx <= i < chain.len() ==> block_packed_from(#[trigger] chain[i], if i == idx { if off < chain[i].used { off } else { chain[i].used } } else { 0 }, chain[i].used)
}
/// the range starts at an entry and contains that entry entirely
pub open spec fn first_covers(p: ReadPlan) -> bool {
    entry_ok(p.blk.mmap.file, p.blk.offset + p.start) && entry_end(p.blk.mmap.file, p.blk.offset + p.start) <= p.blk.offset + p.end
}
