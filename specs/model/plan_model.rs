pub struct ColGuard { pub tok: u8 }   // stand-in for the held column write guard (only `.is_some()` is used by the region)

pub struct Globals { pub ckpt_calls: Ghost<Seq<u64>> }
impl Globals {
    #[verifier::external_body]
    pub fn set_checkpointed_true(&mut self, block_id: usize)
        ensures final(self).ckpt_calls@ == old(self).ckpt_calls@.push(block_id as u64)
    { unimplemented!() }
}
impl Clone for Block {
    #[verifier::external_body]
    fn clone(&self) -> (r: Self) ensures r == *self { unimplemented!() }
}

pub open spec fn wf_block(b: Block) -> bool {
    b.used <= b.limit && b.limit <= 0x4000_0000 && b.offset + b.limit <= 0xFFFF_FFFF_FFFF
}

/// some sealed block at or after the cursor still holds bytes the cursor has not passed
pub open spec fn sealed_unconsumed(chain: Seq<Block>, idx: int, off: u64) -> bool {
    exists|i: int| idx <= i < chain.len() && (if i == idx { off } else { 0 }) < (#[trigger] chain[i]).used
}

/// sealed ranges come in chain order, one per block, inside the block; the tail range (if any) is last
pub open spec fn plan_ordered_upto(plan: Seq<ReadPlan>, chain: Seq<Block>, from: int, upto: int) -> bool {
    &&& forall|k: int| 0 <= k < plan.len() ==> !(#[trigger] plan[k]).is_tail && plan[k].chain_idx is Some
            && from <= plan[k].chain_idx->Some_0 < upto && plan[k].chain_idx->Some_0 < chain.len()
            && plan[k].blk == chain[plan[k].chain_idx->Some_0 as int] && plan[k].end <= plan[k].blk.used
    &&& forall|j: int, k: int| 0 <= j < k < plan.len() ==> (#[trigger] plan[j]).chain_idx->Some_0 < (#[trigger] plan[k]).chain_idx->Some_0
    &&& forall|k: int| 1 <= k < plan.len() ==> (#[trigger] plan[k]).start == 0
}
pub open spec fn plan_ordered(plan: Seq<ReadPlan>, chain: Seq<Block>, from: int) -> bool {
    if plan.len() > 0 && plan.last().is_tail {
        plan_ordered_upto(plan.drop_last(), chain, from, chain.len() as int) && plan.last().chain_idx is None
    } else {
        plan_ordered_upto(plan, chain, from, chain.len() as int)
    }
}

pub proof fn lemma_plan_push(plan: Seq<ReadPlan>, chain: Seq<Block>, from: int, idx: usize, p: ReadPlan)
    requires
        plan_ordered_upto(plan, chain, from, idx as int), from <= idx < chain.len(),
        !p.is_tail, p.chain_idx == Some(idx), p.blk == chain[idx as int], p.end <= p.blk.used,
        plan.len() > 0 ==> p.start == 0,
    ensures plan_ordered_upto(plan.push(p), chain, from, idx + 1)
{
    let q = plan.push(p);
    assert forall|k: int| 0 <= k < q.len() implies !(#[trigger] q[k]).is_tail && q[k].chain_idx is Some
            && from <= q[k].chain_idx->Some_0 < idx + 1 && q[k].chain_idx->Some_0 < chain.len()
            && q[k].blk == chain[q[k].chain_idx->Some_0 as int] && q[k].end <= q[k].blk.used by {
        if k < plan.len() { assert(q[k] == plan[k]); } else { assert(q[k] == p); }
    }
    assert forall|j: int, k: int| 0 <= j < k < q.len() implies (#[trigger] q[j]).chain_idx->Some_0 < (#[trigger] q[k]).chain_idx->Some_0 by {
        assert(q[j] == plan[j]);
        assert(plan[j].chain_idx->Some_0 < idx);
        if k < plan.len() { assert(q[k] == plan[k]); } else { assert(q[k] == p); }
    }
    assert forall|k: int| 1 <= k < q.len() implies (#[trigger] q[k]).start == 0 by {
        if k < plan.len() { assert(q[k] == plan[k]); }
    }
}
pub proof fn lemma_plan_upto_mono(plan: Seq<ReadPlan>, chain: Seq<Block>, from: int, a: int, b: int)
    requires plan_ordered_upto(plan, chain, from, a), a <= b
    ensures plan_ordered_upto(plan, chain, from, b)
{}

pub open spec fn packed_chain(chain: Seq<Block>, idx: int, off: u64) -> bool {
    forall|i: int| idx <= i < chain.len() ==> block_packed_from(#[trigger] chain[i], if i == idx { if off < chain[i].used { off } else { chain[i].used } } else { 0 }, chain[i].used)
}
/// the range starts at an entry and contains that entry entirely
pub open spec fn first_covers(p: ReadPlan) -> bool {
    entry_ok(p.blk.mmap.file, p.blk.offset + p.start) && entry_end(p.blk.mmap.file, p.blk.offset + p.start) <= p.blk.offset + p.end
}

// ---- C01: the plan leaves no gap. Bytes of block i the cursor has not passed yet:
pub open spec fn unread_in(chain: Seq<Block>, idx0: int, off0: u64, i: int) -> int {
    if i == idx0 { if off0 < chain[i].used { chain[i].used - off0 } else { 0 } } else { chain[i].used as int }
}
pub open spec fn planned_at(plan: Seq<ReadPlan>, i: int) -> bool {
    exists|k: int| 0 <= k < plan.len() && !(#[trigger] plan[k]).is_tail && plan[k].chain_idx == Some(i as usize)
}
/// every sealed block the planner stepped over either got a range or holds nothing unread
pub open spec fn no_gap(plan: Seq<ReadPlan>, chain: Seq<Block>, idx0: int, off0: u64, upto: int) -> bool {
    forall|i: int| idx0 <= i < upto && i < chain.len() ==> #[trigger] planned_at(plan, i) || unread_in(chain, idx0, off0, i) == 0
}
pub proof fn lemma_no_gap_push(plan: Seq<ReadPlan>, chain: Seq<Block>, idx0: int, off0: u64, upto: int, p: ReadPlan)
    requires no_gap(plan, chain, idx0, off0, upto), !p.is_tail, p.chain_idx == Some(upto as usize), 0 <= upto < usize::MAX
    ensures no_gap(plan.push(p), chain, idx0, off0, upto + 1)
{
    let q = plan.push(p);
    assert forall|i: int| idx0 <= i < upto + 1 && i < chain.len() implies #[trigger] planned_at(q, i) || unread_in(chain, idx0, off0, i) == 0 by {
        if i < upto {
            if planned_at(plan, i) {
                let k = choose|k: int| 0 <= k < plan.len() && !(#[trigger] plan[k]).is_tail && plan[k].chain_idx == Some(i as usize);
                assert(q[k] == plan[k]);
            }
        } else {
            assert(q[plan.len() as int] == p);
        }
    }
}
pub proof fn lemma_no_gap_skip(plan: Seq<ReadPlan>, chain: Seq<Block>, idx0: int, off0: u64, upto: int)
    requires no_gap(plan, chain, idx0, off0, upto), upto < chain.len() ==> unread_in(chain, idx0, off0, upto) == 0
    ensures no_gap(plan, chain, idx0, off0, upto + 1)
{}
/// requires-free form: stepping over block `upto` without planning it is only gap-free if nothing in it is unread
pub proof fn lemma_no_gap_skip_if(plan: Seq<ReadPlan>, chain: Seq<Block>, idx0: int, off0: u64, upto: int)
    ensures (no_gap(plan, chain, idx0, off0, upto) && (upto < chain.len() ==> unread_in(chain, idx0, off0, upto) == 0)) ==> no_gap(plan, chain, idx0, off0, upto + 1)
{
    if no_gap(plan, chain, idx0, off0, upto) && (upto < chain.len() ==> unread_in(chain, idx0, off0, upto) == 0) {
        lemma_no_gap_skip(plan, chain, idx0, off0, upto);
    }
}
pub proof fn lemma_no_gap_push_any(plan: Seq<ReadPlan>, chain: Seq<Block>, idx0: int, off0: u64, upto: int, p: ReadPlan)
    requires no_gap(plan, chain, idx0, off0, upto)
    ensures no_gap(plan.push(p), chain, idx0, off0, upto)
{
    let q = plan.push(p);
    assert forall|i: int| idx0 <= i < upto && i < chain.len() implies #[trigger] planned_at(q, i) || unread_in(chain, idx0, off0, i) == 0 by {
        if planned_at(plan, i) {
            let k = choose|k: int| 0 <= k < plan.len() && !(#[trigger] plan[k]).is_tail && plan[k].chain_idx == Some(i as usize);
            assert(q[k] == plan[k]);
        }
    }
}
