// Recovery scan of one WAL file (startup_chore, per-file part). `d` is the file's byte content.
pub spec const UNIT: int = 10485760;
pub struct ReaderH { pub chain_log: Ghost<Seq<(Seq<char>, Block)>> }
impl ReaderH {
    #[verifier::external_body]
    pub fn append_block_to_chain(&mut self, col: &str, block: Block) -> (r: IoResult<()>)
        ensures final(self).chain_log@ == old(self).chain_log@.push((col@, block))
    { unimplemented!() }
}
// BlockStateTracker::register_block / FileStateTracker::add_block_to_file_state (unit core_trackers) as ghost logs
pub struct TrackersH { pub registered: Ghost<Seq<(u64, Seq<char>)>>, pub added: Ghost<Seq<Seq<char>>> }
impl TrackersH {
    #[verifier::external_body]
    pub fn register_block(&mut self, id: usize, path: &String) ensures final(self).registered@ == old(self).registered@.push((id as u64, path@)), final(self).added == old(self).added { unimplemented!() }
    #[verifier::external_body]
    pub fn add_block_to_file_state(&mut self, path: &String) ensures final(self).added@ == old(self).added@.push(path@), final(self).registered == old(self).registered { unimplemented!() }
}
// per-topic entry counts table: `topic_block_entry_counts.entry(col).or_default().push(n)` (R8e)
pub struct CountsT { pub log: Ghost<Seq<(Seq<char>, u64)>> }
impl CountsT {
    #[verifier::external_body]
    pub fn push_for(&mut self, col: String, n: u64) ensures final(self).log@ == old(self).log@.push((col@, n)) { unimplemented!() }
}
impl Clone for Block {
    #[verifier::external_body]
    fn clone(&self) -> (r: Self) ensures r == *self { unimplemented!() }
}
#[verifier::external_body]
pub fn string_is_empty(s: &String) -> (r: bool) ensures r == (s@.len() == 0) { unimplemented!() }
pub open spec fn string_is_empty_spec(s: String) -> bool { s@.len() == 0 }

impl Block {
    // assumed contract of Block::read = what unit block_rw proves (read_damaged: arbitrary bytes; read: completeness)
    #[verifier::external_body]
    pub fn read(&self, sys: &Sys, in_block_offset: u64) -> (ret: IoResult<(Entry, usize)>)
        requires
            sys.files@.contains_key(self.mmap.file),
            self.offset + in_block_offset <= 0x7fff_ffff_ffff_ffff,
            sys.files@[self.mmap.file].len() <= 0x7fff_ffff_ffff,
        ensures
            (ret is Ok) == readable(sys.files@[self.mmap.file], self.offset + in_block_offset),
            ret matches Ok(p) ==> p.1 == 256 + entry_size_d(sys.files@[self.mmap.file], self.offset + in_block_offset),
    { unimplemented!() }
}

pub open spec fn hdr_bytes(d: Seq<u8>, a: int) -> Seq<u8> { d.subrange(a + 2, a + 2 + meta_len_of(d[a], d[a + 1])) }
/// Block::read returns Ok at absolute offset a: the header lies inside the file, its length is in range, it passes rkyv
/// validation, the payload lies inside the file and matches its checksum
pub open spec fn readable(d: Seq<u8>, a: int) -> bool { entry_ok_d(d, a) && valid_archive(hdr_bytes(d, a)) }
pub open spec fn zero_probe(d: Seq<u8>, a: int) -> bool { forall|j: int| a <= j < a + 8 ==> #[trigger] d[j] == 0u8 }
pub open spec fn len_ok(d: Seq<u8>, a: int) -> bool { 1 <= meta_len_of(d[a], d[a + 1]) <= 254 }

/// size of the block that starts at `base`, as its first header records it (next_block_start - base), when that is a
/// whole number of units that fits into the scanned part of the file; one unit otherwise
pub open spec fn limit_of(d: Seq<u8>, base: int, scan_end: int) -> int {
    let nbs = spec_decode(hdr_bytes(d, base)).next_block_start as int;
    if nbs > base && (nbs - base) % UNIT == 0 && nbs - base <= scan_end - base { nbs - base } else { UNIT }
}
/// extent of the readable entries of the block at `base` (size `limit`), scanning from in-block offset `off` (the scan stops
/// at the first unreadable entry or once the block is full), and how many entries that is
pub open spec fn extent(d: Seq<u8>, base: int, off: int, limit: int) -> (int, nat)
    decreases (if off < limit { limit - off } else { 0 })
{
    if off < 0 || off >= limit || !readable(d, base + off) { (off, 0nat) }
    else { let sz = hdr_meta_d(d, base + off).read_size as nat; let r = extent(d, base, off + 256 + sz, limit); (r.0, r.1 + 1) }
}
/// a unit the scan must turn into a chain block: it starts with a plausible, valid header and holds at least one readable entry
pub open spec fn good_unit(d: Seq<u8>, base: int, se: int) -> bool {
    !zero_probe(d, base) && len_ok(d, base) && valid_archive(hdr_bytes(d, base)) && extent(d, base, 0, limit_of(d, base, se)).0 > 0
}
/// a unit at which the scan of the file ends: a header of plausible length that fails validation, or no readable entry
pub open spec fn stop_unit(d: Seq<u8>, base: int, se: int) -> bool {
    !zero_probe(d, base) && len_ok(d, base) && (!valid_archive(hdr_bytes(d, base)) || extent(d, base, 0, limit_of(d, base, se)).0 == 0)
}
pub open spec fn owner_of(d: Seq<u8>, base: int) -> Seq<char> { spec_decode(hdr_bytes(d, base)).owned_by@ }
/// how far the scan moves on from a position it does not stop at
pub open spec fn step_of(d: Seq<u8>, base: int, se: int) -> int {
    if zero_probe(d, base) || !len_ok(d, base) { UNIT } else { limit_of(d, base, se) }
}
/// `starts` are the positions the scan visited, in order, from the beginning of the file up to `upto`
#[verifier::opaque]
pub open spec fn path_ok(d: Seq<u8>, starts: Seq<int>, upto: int, se: int) -> bool {
    &&& starts.len() == 0 ==> upto == 0
    &&& starts.len() > 0 ==> starts[0] == 0 && starts.last() + step_of(d, starts.last(), se) == upto
    &&& forall|i: int| 0 <= i < starts.len() - 1 ==> #[trigger] starts[i + 1] == starts[i] + step_of(d, starts[i], se)
    &&& forall|i: int| 0 <= i < starts.len() ==> 0 <= #[trigger] starts[i] < upto && starts[i] % UNIT == 0 && !stop_unit(d, starts[i], se)
}

/// every chain entry appended since `from` describes a visited good unit exactly: offset, size, extent, owner, id
#[verifier::opaque]
pub open spec fn log_sound(log: Seq<(Seq<char>, Block)>, from: int, d: Seq<u8>, f: int, id0: int, starts: Seq<int>, se: int) -> bool {
    forall|i: int| from <= i < log.len() ==> {
        let b = (#[trigger] log[i]).1;
        &&& b.mmap.file == f && b.limit == limit_of(d, b.offset as int, se)
        &&& good_unit(d, b.offset as int, se) && b.used == extent(d, b.offset as int, 0, b.limit as int).0
        &&& log[i].0 == owner_of(d, b.offset as int) && log[i].0.len() > 0
        &&& exists|k: int| 0 <= k < starts.len() && #[trigger] starts[k] == b.offset && b.id == id0 + k
    }
}
/// appended blocks are in ascending file order
#[verifier::opaque]
pub open spec fn log_ordered(log: Seq<(Seq<char>, Block)>, from: int) -> bool {
    forall|i: int, j: int| from <= i < j < log.len() ==> (#[trigger] log[i]).1.offset < (#[trigger] log[j]).1.offset
}
/// every visited good unit with an owner has been appended
#[verifier::opaque]
pub open spec fn log_complete(log: Seq<(Seq<char>, Block)>, from: int, d: Seq<u8>, starts: Seq<int>, se: int) -> bool {
    forall|k: int| 0 <= k < starts.len() && good_unit(d, #[trigger] starts[k], se) && owner_of(d, starts[k]).len() > 0
        ==> exists|i: int| from <= i < log.len() && (#[trigger] log[i]).1.offset == starts[k]
}

// `let mut probe = [0u8; 8]; mmap.read(off, &mut probe);`
#[verifier::external_body]
pub fn sys_read8(sys: &Sys, m: &MmapH, offset: usize) -> (r: [u8; 8])
    requires sys.files@.contains_key(m.file), offset + 8 <= sys.files@[m.file].len(),
    ensures r@ == sys.files@[m.file].subrange(offset as int, offset + 8),
{ unimplemented!() }
// `probe.iter().all(|&b| b == 0)`
#[verifier::external_body]
pub fn all_zero8(p: &[u8; 8]) -> (r: bool) ensures r == (forall|j: int| 0 <= j < 8 ==> #[trigger] p@[j] == 0u8) { unimplemented!() }

pub proof fn lemma_probe(d: Seq<u8>, a: int, p: Seq<u8>)
    requires 0 <= a, a + 8 <= d.len(), p == d.subrange(a, a + 8),
    ensures zero_probe(d, a) == (forall|j: int| 0 <= j < 8 ==> #[trigger] p[j] == 0u8),
{
    if zero_probe(d, a) { assert forall|j: int| 0 <= j < 8 implies #[trigger] p[j] == 0u8 by { assert(p[j] == d[a + j]); } }
    if forall|j: int| 0 <= j < 8 ==> #[trigger] p[j] == 0u8 { assert forall|j: int| a <= j < a + 8 implies #[trigger] d[j] == 0u8 by { assert(d[j] == p[j - a]); } }
}

/// what one iteration of the scan does to the chain log at position `bo`: nothing, or exactly one block describing `bo`
pub open spec fn visit_step(log0: Seq<(Seq<char>, Block)>, log1: Seq<(Seq<char>, Block)>, d: Seq<u8>, f: int, id: int, bo: int, se: int) -> bool {
    ||| (log1 == log0 && !(good_unit(d, bo, se) && owner_of(d, bo).len() > 0))
    ||| (log1.len() == log0.len() + 1 && (forall|i: int| 0 <= i < log0.len() ==> log1[i] == log0[i]) && ({
            let b = log1[log0.len() as int].1;
            b.offset == bo && b.mmap.file == f && b.limit == limit_of(d, bo, se) && good_unit(d, bo, se) && b.used == extent(d, bo, 0, b.limit as int).0
                && log1[log0.len() as int].0 == owner_of(d, bo) && log1[log0.len() as int].0.len() > 0 && b.id == id
        }))
}
pub proof fn lemma_visit_path(d: Seq<u8>, starts: Seq<int>, bo: int, se: int)
    requires path_ok(d, starts, bo, se), bo % UNIT == 0, 0 <= bo, !stop_unit(d, bo, se), step_of(d, bo, se) > 0,
    ensures path_ok(d, starts.push(bo), bo + step_of(d, bo, se), se),
{
    reveal(path_ok);
    let s1 = starts.push(bo);
    let n = starts.len() as int;
    assert forall|i: int| 0 <= i < s1.len() - 1 implies #[trigger] s1[i + 1] == s1[i] + step_of(d, s1[i], se) by {
        if i + 1 < n { assert(s1[i + 1] == starts[i + 1] && s1[i] == starts[i]); } else { assert(s1[i] == starts[i] && s1[i + 1] == bo); assert(starts[i] == starts.last()); }
    }
    assert forall|i: int| 0 <= i < s1.len() implies 0 <= #[trigger] s1[i] < bo + step_of(d, bo, se) && s1[i] % UNIT == 0 && !stop_unit(d, s1[i], se) by {
        if i < n { assert(s1[i] == starts[i]); }
    }
    assert(s1.last() == bo);
    assert(s1[0] == (if n > 0 { starts[0] } else { bo }));
}
pub proof fn lemma_visit_sound(log0: Seq<(Seq<char>, Block)>, log1: Seq<(Seq<char>, Block)>, from: int, d: Seq<u8>, f: int, id0: int, starts: Seq<int>, bo: int, se: int)
    requires 0 <= from <= log0.len(), log_sound(log0, from, d, f, id0, starts, se), visit_step(log0, log1, d, f, id0 + starts.len(), bo, se),
    ensures log_sound(log1, from, d, f, id0, starts.push(bo), se),
{
    reveal(log_sound);
    let s1 = starts.push(bo);
    let n = starts.len() as int;
    assert forall|i: int| from <= i < log1.len() implies ({
        let b = (#[trigger] log1[i]).1;
        b.mmap.file == f && b.limit == limit_of(d, b.offset as int, se) && good_unit(d, b.offset as int, se) && b.used == extent(d, b.offset as int, 0, b.limit as int).0
            && log1[i].0 == owner_of(d, b.offset as int) && log1[i].0.len() > 0
            && exists|k: int| 0 <= k < s1.len() && #[trigger] s1[k] == b.offset && b.id == id0 + k
    }) by {
        if i < log0.len() {
            assert(log1[i] == log0[i]);
            let b = log0[i].1;
            let k = choose|k: int| 0 <= k < starts.len() && #[trigger] starts[k] == b.offset && b.id == id0 + k;
            assert(s1[k] == starts[k]);
        } else {
            assert(i == log0.len());
            assert(s1[n] == bo);
        }
    }
}
pub proof fn lemma_visit_complete(log0: Seq<(Seq<char>, Block)>, log1: Seq<(Seq<char>, Block)>, from: int, d: Seq<u8>, f: int, id: int, starts: Seq<int>, bo: int, se: int)
    requires 0 <= from <= log0.len(), log_complete(log0, from, d, starts, se), visit_step(log0, log1, d, f, id, bo, se),
    ensures log_complete(log1, from, d, starts.push(bo), se),
{
    reveal(log_complete);
    let s1 = starts.push(bo);
    let n = starts.len() as int;
    assert forall|k: int| 0 <= k < s1.len() && good_unit(d, #[trigger] s1[k], se) && owner_of(d, s1[k]).len() > 0
        implies exists|i: int| from <= i < log1.len() && (#[trigger] log1[i]).1.offset == s1[k] by {
        if k < n {
            assert(s1[k] == starts[k]);
            let i = choose|i: int| from <= i < log0.len() && (#[trigger] log0[i]).1.offset == starts[k];
            assert(log1[i] == log0[i]);
        } else {
            assert(s1[k] == bo);
            let i = log0.len() as int;
            assert(log1[i].1.offset == bo);
        }
    }
}
pub proof fn lemma_visit_ordered(log0: Seq<(Seq<char>, Block)>, log1: Seq<(Seq<char>, Block)>, from: int, d: Seq<u8>, f: int, id: int, bo: int, se: int, step: int)
    requires 0 <= from <= log0.len(), log_ordered(log0, from), visit_step(log0, log1, d, f, id, bo, se), step > 0,
        forall|i: int| from <= i < log0.len() ==> (#[trigger] log0[i]).1.offset < bo,
    ensures log_ordered(log1, from), forall|i: int| from <= i < log1.len() ==> (#[trigger] log1[i]).1.offset < bo + step,
{
    reveal(log_ordered);
    assert forall|i: int, j: int| from <= i < j < log1.len() implies (#[trigger] log1[i]).1.offset < (#[trigger] log1[j]).1.offset by {
        if j < log0.len() { assert(log1[i] == log0[i] && log1[j] == log0[j]); } else { assert(log1[i] == log0[i]); }
    }
    assert forall|i: int| from <= i < log1.len() implies (#[trigger] log1[i]).1.offset < bo + step by {
        if i < log0.len() { assert(log1[i] == log0[i]); }
    }
}
pub proof fn lemma_mod_add(a: int, b: int)
    requires a % UNIT == 0, b % UNIT == 0, 0 <= a, 0 <= b,
    ensures (a + b) % UNIT == 0,
{
    vstd::arithmetic::div_mod::lemma_mod_adds(a, b, UNIT);
}

pub proof fn lemma_scan_init(log: Seq<(Seq<char>, Block)>, d: Seq<u8>, f: int, id0: int, se: int)
    ensures path_ok(d, Seq::<int>::empty(), 0, se), log_sound(log, log.len() as int, d, f, id0, Seq::<int>::empty(), se),
            log_ordered(log, log.len() as int), log_complete(log, log.len() as int, d, Seq::<int>::empty(), se),
{
    reveal(path_ok); reveal(log_sound); reveal(log_ordered); reveal(log_complete);
}

// ---- end of startup_chore: the deletion checks for the files seen and the allocator's fast-forward
// BlockAllocator::fast_forward (unit core_trackers) as a ghost log of the ids it was called with
pub struct AllocFF { pub ff: Ghost<Seq<u64>> }
impl AllocFF {
    #[verifier::external_body]
    pub fn fast_forward(&mut self, next_id: u64) ensures final(self).ff@ == old(self).ff@.push(next_id) { unimplemented!() }
}
// `for f in seen_files.into_iter() { flush_check(f); }` (std HashSet iterator; flush_check: unit core_trackers)
pub struct SeenH { pub x: u8 }
impl TrackersH {
    #[verifier::external_body]
    pub fn flush_check_all(&mut self, seen: SeenH) ensures final(self).registered == old(self).registered, final(self).added == old(self).added { unimplemented!() }
}
