// rkyv::to_bytes::<_, 256>(&Metadata) (R5) and its relation to decoding (A-RKYV): what was serialised is a valid
// archive and decodes to the same value.
pub uninterp spec fn spec_meta_bytes(m: Metadata) -> Seq<u8>;
pub broadcast axiom fn axiom_rkyv_roundtrip(m: Metadata)
    ensures valid_archive(#[trigger] spec_meta_bytes(m)), spec_decode(spec_meta_bytes(m)) == m, spec_meta_bytes(m).len() >= 1;

#[verifier::external_body]
pub fn rkyv_to_bytes_metadata(m: &Metadata) -> (r: Result<AlignedVec, ()>)
    ensures r matches Ok(a) ==> a@ == spec_meta_bytes(*m)
{ unimplemented!() }

impl AlignedVec {
    pub fn len(&self) -> (r: usize) ensures r == self@.len() { self.v.len() }
}

// `dst[a..a + src.len()].copy_from_slice(src)`
#[verifier::external_body]
pub fn slice_copy_into(dst: &mut Vec<u8>, at: usize, src: &[u8])
    requires at + src@.len() <= old(dst)@.len()
    ensures final(dst)@ == write_at(old(dst)@, at as int, src@)
{ unimplemented!() }
