// C21: WriteAheadLog::read_all (octopii/src/wal/mod.rs) against an abstract Walrus in StrictlyAtOnce mode:
//   log       - the topic's records, in append order
//   cursor    - in-memory read position of this instance;  persisted - what the next instance starts from
pub type WResult<T> = Result<T, ()>;
pub struct Bytes { pub v: Vec<u8> }
impl Bytes {
    pub fn from(v: Vec<u8>) -> (r: Bytes) ensures r.v == v { Bytes { v } }
}
pub struct WalrusH { pub log: Ghost<Seq<Seq<u8>>>, pub cursor: Ghost<nat>, pub persisted: Ghost<nat> }
pub open spec fn datas(v: Seq<Entry>) -> Seq<Seq<u8>> { Seq::new(v.len(), |i: int| v[i].data@) }
impl WalrusH {
    // Walrus::batch_read_for_topic(topic, max_bytes, checkpoint, None) as C01/C02/C03/C09 specify it (StrictlyAtOnce):
    // a run of the records behind the cursor, in order; at least one unless none is left; a consuming read moves the cursor and
    // persists it before returning
    #[verifier::external_body]
    pub fn batch_read_for_topic(&mut self, topic: &String, max_bytes: usize, checkpoint: bool, start_offset: Option<u64>) -> (r: WResult<Vec<Entry>>)
        requires old(self).cursor@ <= old(self).log@.len(),
        ensures
            final(self).log == old(self).log,
            r matches Ok(v) ==> old(self).cursor@ + v@.len() <= old(self).log@.len()
                && datas(v@) == old(self).log@.subrange(old(self).cursor@ as int, (old(self).cursor@ + v@.len()) as int)
                && (v@.len() == 0 ==> old(self).cursor@ == old(self).log@.len())
                && (checkpoint ==> final(self).cursor@ == old(self).cursor@ + v@.len() && final(self).persisted@ == final(self).cursor@)
                && (!checkpoint ==> final(self).cursor == old(self).cursor && final(self).persisted == old(self).persisted),
            r is Err ==> final(self).cursor == old(self).cursor && final(self).persisted == old(self).persisted,
    { unimplemented!() }
}
pub open spec fn bytes_view(v: Seq<Bytes>) -> Seq<Seq<u8>> { Seq::new(v.len(), |i: int| v[i].v@) }
pub proof fn lemma_extend(all0: Seq<Bytes>, all1: Seq<Bytes>, batch: Seq<Entry>, log: Seq<Seq<u8>>, c0: int, c1: int)
    requires 0 <= c0 <= c1, c1 + batch.len() <= log.len(), bytes_view(all0) == log.subrange(c0, c1), datas(batch) == log.subrange(c1, c1 + batch.len()),
        all1.len() == all0.len() + batch.len(), forall|i: int| 0 <= i < all0.len() ==> all1[i] == all0[i],
        forall|j: int| 0 <= j < batch.len() ==> (#[trigger] all1[all0.len() + j]).v@ == batch[j].data@,
    ensures bytes_view(all1) == log.subrange(c0, c1 + batch.len()),
{
    assert(all0.len() == c1 - c0) by { assert(bytes_view(all0).len() == log.subrange(c0, c1).len()); }
    assert forall|i: int| 0 <= i < all1.len() implies bytes_view(all1)[i] == log.subrange(c0, c1 + batch.len())[i] by {
        if i < all0.len() {
            assert(all1[i] == all0[i]);
            assert(bytes_view(all0)[i] == log.subrange(c0, c1)[i]);
            assert(bytes_view(all1)[i] == all1[i].v@);
        } else {
            let j = i - all0.len();
            assert(all1[all0.len() + j].v@ == batch[j].data@);
            assert(datas(batch)[j] == batch[j].data@);
            assert(datas(batch)[j] == log.subrange(c1, c1 + batch.len())[j]);
            assert(log.subrange(c1, c1 + batch.len())[j] == log[c1 + j]);
            assert(log.subrange(c0, c1 + batch.len())[i] == log[c0 + i]);
        }
    }
    assert(bytes_view(all1) =~= log.subrange(c0, c1 + batch.len()));
}
// `for entry in batch` by value: take element k out of the vector (its data moves out)
#[verifier::external_body]
pub fn entry_take(v: &mut Vec<Entry>, k: usize) -> (r: Entry)
    requires k < old(v)@.len(),
    ensures r.data@ == old(v)@[k as int].data@, final(v)@.len() == old(v)@.len(), forall|j: int| 0 <= j < old(v)@.len() && j != k ==> (#[trigger] final(v)@[j]).data@ == old(v)@[j].data@,
{ unimplemented!() }
