// C15 restart clause: the recount after recovery.
// entries_in(b, upto): number of whole entries of block b that end at or before in-block offset `upto`
// (uninterpreted here; count_entries_in_block_up_to is proved to compute it from Block::read's contract)
pub uninterp spec fn entries_in(b: Block, upto: u64) -> u64;

// the per-topic table built by the recovery scan: per_block[i] = entries_in(chain[i], chain[i].used)
pub struct CountsTable { pub t: Ghost<Map<Seq<char>, Seq<u64>>> }
impl CountsTable {
    #[verifier::external_body]
    pub fn get<'a>(&'a self, topic: &str) -> (r: Option<&'a Vec<u64>>)
        ensures match r { Some(v) => self.t@.contains_key(topic@) && v@ == self.t@[topic@], None => !self.t@.contains_key(topic@) }
    { unimplemented!() }
}
pub open spec fn table_matches(per: Seq<u64>, chain: Seq<Block>) -> bool {
    per.len() == chain.len() && forall|i: int| 0 <= i < chain.len() ==> #[trigger] per[i] == entries_in(chain[i], chain[i].used)
}

pub open spec fn min_u64(a: u64, b: u64) -> u64 { if a < b { a } else { b } }

/// entries lying before the position (block index bi, offset off)
pub open spec fn consumed_at(per: Seq<u64>, chain: Seq<Block>, bi: int, off: u64) -> int {
    seq_sum(per, bi) + (if 0 <= bi < chain.len() { entries_in(chain[bi], min_u64(off, chain[bi].used)) as int } else { 0 })
}

/// what the persisted cursor (raw index encoding) says has been consumed
pub open spec fn consumed_spec(per: Seq<u64>, chain: Seq<Block>, pos: Option<(u64, u64)>) -> int {
    match pos {
        None => 0,
        Some((idx, off)) =>
            if idx & (1u64 << 63) != 0 {
                let id = idx & !(1u64 << 63);
                if exists|i: int| first_idx_with_id(chain, id, i) {
                    consumed_at(per, chain, choose|i: int| first_idx_with_id(chain, id, i), off)
                } else { 0 }
            } else {
                consumed_at(per, chain, if idx as int <= chain.len() { idx as int } else { chain.len() as int }, off)
            }
    }
}

pub open spec fn recount_spec(per: Seq<u64>, chain: Seq<Block>, pos: Option<(u64, u64)>) -> int {
    let total = seq_sum(per, per.len() as int);
    let c = consumed_spec(per, chain, pos);
    if c >= total { 0 } else { total - c }
}

// count_entries_in_block_up_to (nested fn) computes entries_in; assumed here, it is the definition of entries_in
// in terms of Block::read and is discharged against the byte model in unit block_rw
#[verifier::external_body]
pub fn count_entries_in_block_up_to(block: &Block, limit: u64) -> (r: u64)
    ensures r == entries_in(*block, min_u64(limit, block.used))
{ unimplemented!() }
