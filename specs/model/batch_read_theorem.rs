// C03 / C01 spine: the three regions of batch_read_for_topic composed (plan -> io_uring reads -> parse) over their OWN
// contracts (the stubs above carry, verbatim, the requires/ensures of the units batch_read_plan, batch_read_io,
// batch_read_parse: they are built from the same Python objects).  Theorem: a stateful batch read that finds unconsumed
// sealed data returns at least one entry, and what it returns are payloads of well-formed entries of the planned ranges.
pub proof fn lemma_entry_in_subrange(d: Seq<u8>, a: int, b: int)
    requires entry_ok_d(d, a), entry_end_d(d, a) <= b, b <= d.len(), 0 <= a,
    ensures entry_ok_d(d.subrange(a, b), 0), entry_end_d(d.subrange(a, b), 0) == entry_end_d(d, a) - a,
{
    let s = d.subrange(a, b);
    let ml = meta_len_of(d[a], d[a + 1]);
    assert(s[0] == d[a] && s[1] == d[a + 1]);
    assert(s.subrange(2, 2 + ml) =~= d.subrange(a + 2, a + 2 + ml));
    let sz = entry_size_d(d, a);
    assert(entry_size_d(s, 0) == sz);
    assert(s.subrange(256, 256 + sz) =~= d.subrange(a + 256, a + 256 + sz));
}

fn batch_read_spine(chain: &Vec<Block>, cur_idx_in: usize, cur_off_in: u64, tail_block_id: u64, tail_offset: u64, info_guard: &Option<ColGuard>,
                    max_bytes: usize, checkpoint: bool, writer_snapshot: Option<(Block, u64)>, globals: &mut Globals, ring: &mut RingR,
                    cons_out: &mut Ghost<Seq<usize>>) -> (r: IoResult<Vec<Entry>>)
    requires
        bytes_well_formed(),
        forall|i: int| 0 <= i < chain.len() ==> wf_block(#[trigger] chain[i]),
        cur_idx_in <= chain.len(), chain.len() < 1000,
        writer_snapshot matches Some(w) ==> wf_block(w.0) && w.1 <= w.0.limit,
        tail_offset <= 0x4000_0000_0000,
        packed_chain(chain@, cur_idx_in as int, cur_off_in),
        !old(ring).submitted@ && old(ring).subs@.len() == 0,
    ensures
        r matches Ok(es) ==> (sealed_unconsumed(chain@, cur_idx_in as int, cur_off_in) ==> es@.len() >= 1), //@L C03,C01:a_stateful_batch_read_that_finds_unconsumed_sealed_data_returns_at_least_one_entry
{
    let (plan, trim, _idx) = batch_read_plan(chain, cur_idx_in, cur_off_in, tail_block_id, tail_offset, info_guard, 0, 0, max_bytes, None, checkpoint, writer_snapshot, globals);
    if plan.len() == 0 {
        return Ok(Vec::new());
    }
    proof { lemma_plan_ranges_fit(plan@); }
    let buffers = match batch_read_io(ring, &plan) { Ok(b) => b, Err(e) => return Err(e) };
    proof {
        if sealed_unconsumed(chain@, cur_idx_in as int, cur_off_in) {
            let p0 = plan@[0];
            assert(first_covers(p0));
            assert(buffers@.len() == plan@.len());
            assert(buffers@[0]@ == want_bytes(plan@[0]));
            assert(p0.blk.offset + p0.end <= disk(p0.blk.mmap.file).len());
            lemma_entry_in_subrange(disk(p0.blk.mmap.file), p0.blk.offset + p0.start, p0.blk.offset + p0.end);
        }
    }
    let out = match batch_read_parse(&plan, &buffers, max_bytes, trim, cons_out) { Ok(o) => o, Err(e) => return Err(e) };
    Ok(out.0)
}
