// Writer-side stand-ins (R2, R6, R7, R15).
pub struct SenderH { pub sent: Ghost<Seq<Seq<char>>> }
impl SenderH {
    #[verifier::external_body]
    pub fn send(&mut self, path: String) -> (r: Result<(), ()>) ensures final(self).sent@ == old(self).sent@.push(path@) { unimplemented!() }
}
// Arc<Reader>: the only thing the writer does with it is append a sealed block to its topic's chain
pub struct ReaderH { pub chain_log: Ghost<Seq<(Seq<char>, Block)>> }
impl ReaderH {
    #[verifier::external_body]
    pub fn append_block_to_chain(&mut self, col: &str, block: Block) -> (r: IoResult<()>)
        ensures final(self).chain_log@ == old(self).chain_log@.push((col@, block))
    { unimplemented!() }
}
// FileStateTracker::set_block_unlocked seen from the writer (verified in core_trackers)
pub struct GlobalsW { pub unlocked: Ghost<Seq<u64>> }
impl GlobalsW {
    #[verifier::external_body]
    pub fn set_block_unlocked(&mut self, id: usize) ensures final(self).unlocked@ == old(self).unlocked@.push(id as u64) { unimplemented!() }
}
// Arc<BlockAllocator>::alloc_block: assumed contract = what unit core_trackers proves (+ A-ALLOC-FRESH: the new block's byte
// range was never handed out before, so it holds no entry of this topic and nobody else writes into it)
pub struct AllocH { pub next_id: u64 }
impl AllocH {
    #[verifier::external_body]
    pub fn alloc_block(&mut self, sys: &Sys, Ghost(log): Ghost<Seq<(Seq<char>, Block)>>, Ghost(active): Ghost<Block>, want_bytes: u64) -> (r: IoResult<Block>)
        ensures
            (want_bytes == 0 || want_bytes > 1073741824) ==> r is Err,
            // A-ALLOC-FRESH: the byte range handed out was never handed out before: it overlaps no sealed block and not the active block
            r matches Ok(b) ==> chain_untouched_by(log, b.mmap.file, b.offset as int, b.offset + b.limit)
                && (b.mmap.file != active.mmap.file || active.offset + active.limit <= b.offset || b.offset + b.limit <= active.offset)
                && b.offset + b.limit <= sys.files@[b.mmap.file].len(),
            r matches Ok(b) ==> b.used == 0 && b.limit >= want_bytes && b.limit >= 10485760 && b.limit <= 0x4000_0000_0000 && b.id == old(self).next_id && final(self).next_id == b.id + 1
                && sys.files@.contains_key(b.mmap.file) && b.offset + b.limit <= 0x7fff_ffff_ffff,
            r is Err ==> final(self).next_id == old(self).next_id,
    { unimplemented!() }
}
impl Clone for Block {
    #[verifier::external_body]
    fn clone(&self) -> (r: Self) ensures r == *self { unimplemented!() }
}
impl Block {
    // assumed contract of Block::write = exactly what unit block_rw proves
    #[verifier::external_body]
    pub fn write(&self, sys: &mut Sys, in_block_offset: u64, data: &[u8], owned_by: &str, next_block_start: u64) -> (ret: IoResult<()>)
        requires
            old(sys).files@.contains_key(self.mmap.file),
            self.offset + in_block_offset + PREFIX_META_SIZE + data@.len() <= old(sys).files@[self.mmap.file].len(),
            self.offset + in_block_offset + PREFIX_META_SIZE + data@.len() <= 0x7fff_ffff_ffff,
        ensures
            ret is Ok ==> entry_written(final(sys).files@[self.mmap.file], self.offset + in_block_offset, data@, owned_by@, next_block_start),
            ret is Ok ==> final(sys).files@ == old(sys).files@.insert(self.mmap.file, write_at(old(sys).files@[self.mmap.file], self.offset + in_block_offset, final(sys).files@[self.mmap.file].subrange(self.offset + in_block_offset, self.offset + in_block_offset + PREFIX_META_SIZE + data@.len()))),
            ret is Err ==> final(sys).files@ == old(sys).files@,
    { unimplemented!() }
}

impl Block {
    // assumed contract of Block::zero_range = what unit block_rw proves
    #[verifier::external_body]
    pub fn zero_range(&self, sys: &mut Sys, in_block_offset: u64, size: u64) -> (ret: IoResult<()>)
        requires
            old(sys).files@.contains_key(self.mmap.file),
            self.offset + in_block_offset + size <= old(sys).files@[self.mmap.file].len(),
            self.offset + in_block_offset + size <= 0x7fff_ffff_ffff,
        ensures
            final(sys).files@ == old(sys).files@.insert(self.mmap.file, write_at(old(sys).files@[self.mmap.file], self.offset + in_block_offset, Seq::new(size as nat, |i: int| 0u8))),
            ret is Ok,
    { unimplemented!() }
}

/// the writer's active block is inside its file and packed up to the published offset
pub open spec fn wf_writer(b: Block, cur: u64, sys: Sys) -> bool {
    &&& sys.files@.contains_key(b.mmap.file)
    &&& cur <= b.limit && b.limit <= 0x4000_0000_0000
    &&& b.offset + b.limit <= 0x7fff_ffff_ffff
    &&& b.offset + b.limit <= sys.files@[b.mmap.file].len()
    &&& packed_d(sys.files@[b.mmap.file], b.offset as int, b.offset + cur)
}
/// sealed blocks of the reader chain are inside their files and do not overlap the writable part of the active block
pub open spec fn wf_chain(log: Seq<(Seq<char>, Block)>, b: Block, cur: u64, sys: Sys) -> bool {
    &&& chain_untouched_by(log, b.mmap.file, b.offset + cur, b.offset + b.limit)
    &&& forall|i: int| 0 <= i < log.len() ==> (#[trigger] log[i]).1.offset + log[i].1.used <= 0x7fff_ffff_ffff
            && (sys.files@.contains_key(log[i].1.mmap.file) ==> log[i].1.offset + log[i].1.used <= sys.files@[log[i].1.mmap.file].len())
}
/// payloads of the entries in the active block
pub open spec fn active_payloads(b: Block, cur: u64, sys: Sys) -> Seq<Seq<u8>> {
    payloads_d(sys.files@[b.mmap.file], b.offset as int, b.offset + cur)
}

/// appending a well-formed entry right behind a packed range extends the tiling by exactly that payload
pub proof fn lemma_packed_append(d: Seq<u8>, d2: Seq<u8>, a: int, b: int, payload: Seq<u8>, owner: Seq<char>, nbs: u64)
    requires
        0 <= a <= b, packed_d(d, a, b), b + 256 + payload.len() <= d.len(),
        d2.len() == d.len(), forall|i: int| 0 <= i < d.len() && !(b <= i < b + 256 + payload.len()) ==> d2[i] == d[i],
        entry_written(d2, b, payload, owner, nbs),
    ensures
        packed_d(d2, a, b + 256 + payload.len()),
        payloads_d(d2, a, b + 256 + payload.len()) == payloads_d(d, a, b).push(payload),
    decreases b - a
{
    if a >= b {
        assert(a == b);
        assert(entry_end_d(d2, b) == b + 256 + payload.len());
        assert(packed_d(d2, entry_end_d(d2, b), b + 256 + payload.len()));
        assert(payloads_d(d2, entry_end_d(d2, b), b + 256 + payload.len()) =~= Seq::<Seq<u8>>::empty());
        assert(payloads_d(d, a, b) =~= Seq::<Seq<u8>>::empty());
        assert(payloads_d(d2, a, b + 256 + payload.len()) =~= seq![payload]);
        assert(Seq::<Seq<u8>>::empty().push(payload) =~= seq![payload]);
    } else {
        let e = entry_end_d(d, a);
        lemma_entry_unchanged(d, d2, a, b);
        lemma_packed_append(d, d2, e, b, payload, owner, nbs);
        assert(entry_end_d(d2, a) == e);
        let p0 = d.subrange(a + 256, e);
        assert(d2.subrange(a + 256, e) =~= p0);
        assert(payloads_d(d2, a, b + 256 + payload.len()) =~= seq![p0] + payloads_d(d2, e, b + 256 + payload.len()));
        assert(payloads_d(d, a, b) =~= seq![p0] + payloads_d(d, e, b));
        assert(seq![p0] + payloads_d(d, e, b).push(payload) =~= (seq![p0] + payloads_d(d, e, b)).push(payload));
    }
}
/// an entry that lies entirely inside an unchanged byte range is unchanged
pub proof fn lemma_entry_unchanged(d: Seq<u8>, d2: Seq<u8>, a: int, b: int)
    requires
        entry_ok_d(d, a), entry_end_d(d, a) <= b, b <= d.len(), d2.len() == d.len(),
        forall|i: int| 0 <= i < b ==> d2[i] == d[i],
    ensures entry_ok_d(d2, a), entry_end_d(d2, a) == entry_end_d(d, a), hdr_meta_d(d2, a) == hdr_meta_d(d, a),
{
    let ml = meta_len_of(d[a], d[a + 1]);
    assert(d2[a] == d[a] && d2[a + 1] == d[a + 1]);
    assert(d2.subrange(a + 2, a + 2 + ml) =~= d.subrange(a + 2, a + 2 + ml));
    let sz = entry_size_d(d, a);
    assert(d2.subrange(a + 256, a + 256 + sz) =~= d.subrange(a + 256, a + 256 + sz));
}

// ---- the topic's abstract log as seen through the writer: sealed chain (this topic's entries of the reader's chain log)
//      followed by the active block up to the published offset  (DESIGN 3.4 `view`)
pub open spec fn chain_payloads(log: Seq<(Seq<char>, Block)>, col: Seq<char>, files: Map<int, Seq<u8>>) -> Seq<Seq<u8>>
    decreases log.len()
{
    if log.len() == 0 { Seq::empty() } else {
        let (c, b) = log.last();
        chain_payloads(log.drop_last(), col, files)
            + (if c == col && files.contains_key(b.mmap.file) { payloads_d(files[b.mmap.file], b.offset as int, b.offset + b.used) } else { Seq::empty() })
    }
}
pub open spec fn topic_log(w: Writer, sys: Sys) -> Seq<Seq<u8>> {
    chain_payloads(w.reader.chain_log@, w.col@, sys.files@) + active_payloads(w.current_block, w.current_offset, sys)
}
/// byte ranges of the sealed blocks never overlap the part of a block a writer may still write to
pub open spec fn chain_untouched_by(log: Seq<(Seq<char>, Block)>, file: int, lo: int, hi: int) -> bool {
    forall|i: int| 0 <= i < log.len() ==> (#[trigger] log[i]).1.mmap.file != file || log[i].1.offset + log[i].1.used <= lo || hi <= log[i].1.offset
}

/// payloads of a byte range only depend on the bytes of that range
pub proof fn lemma_payloads_frame(d: Seq<u8>, d2: Seq<u8>, a: int, b: int)
    requires 0 <= a, b <= d.len(), d2.len() == d.len(), forall|i: int| a <= i < b ==> d2[i] == d[i],
    ensures payloads_d(d2, a, b) == payloads_d(d, a, b), packed_d(d, a, b) == packed_d(d2, a, b),
    decreases b - a
{
    if a < b {
        let okd = entry_ok_d(d, a) && entry_end_d(d, a) <= b;
        let okd2 = entry_ok_d(d2, a) && entry_end_d(d2, a) <= b;
        if a + 256 <= b {
            assert(d2[a] == d[a] && d2[a + 1] == d[a + 1]);
            let ml = meta_len_of(d[a], d[a + 1]);
            if 1 <= ml <= 254 {
                assert(d2.subrange(a + 2, a + 2 + ml) =~= d.subrange(a + 2, a + 2 + ml));
                let sz = entry_size_d(d, a);
                assert(entry_size_d(d2, a) == sz);
                if a + 256 + sz <= b {
                    assert(d2.subrange(a + 256, a + 256 + sz) =~= d.subrange(a + 256, a + 256 + sz));
                    assert(okd == okd2);
                    if okd { lemma_payloads_frame(d, d2, a + 256 + sz, b); }
                } else {
                    assert(!okd && !okd2);
                }
            } else { assert(!okd && !okd2); }
        } else {
            // fewer than 256 bytes left: neither can hold an entry that ends at or before b
            assert(entry_ok_d(d, a) ==> entry_end_d(d, a) >= a + 256);
            assert(entry_ok_d(d2, a) ==> entry_end_d(d2, a) >= a + 256);
            assert(!okd && !okd2);
        }
    }
}

/// writes outside every sealed block of the chain leave the chain's payloads unchanged
pub proof fn lemma_chain_frame(log: Seq<(Seq<char>, Block)>, col: Seq<char>, files: Map<int, Seq<u8>>, files2: Map<int, Seq<u8>>, file: int, lo: int, hi: int)
    requires
        chain_untouched_by(log, file, lo, hi),
        files.contains_key(file), files2.contains_key(file), files2[file].len() == files[file].len(),
        forall|f: int| f != file ==> (#[trigger] files2.contains_key(f) == files.contains_key(f) && (files.contains_key(f) ==> files2[f] == files[f])),
        forall|i: int| 0 <= i < files[file].len() && !(lo <= i < hi) ==> #[trigger] files2[file][i] == files[file][i],
        forall|i: int| 0 <= i < log.len() ==> (#[trigger] log[i]).1.offset + log[i].1.used <= 0x7fff_ffff_ffff && (files.contains_key(log[i].1.mmap.file) ==> log[i].1.offset + log[i].1.used <= files[log[i].1.mmap.file].len()),
    ensures chain_payloads(log, col, files2) == chain_payloads(log, col, files)
    decreases log.len()
{
    if log.len() > 0 {
        let (c, b) = log.last();
        let rest = log.drop_last();
        assert forall|i: int| 0 <= i < rest.len() implies (#[trigger] rest[i]).1.mmap.file != file || rest[i].1.offset + rest[i].1.used <= lo || hi <= rest[i].1.offset by { assert(rest[i] == log[i]); }
        assert forall|i: int| 0 <= i < rest.len() implies (#[trigger] rest[i]).1.offset + rest[i].1.used <= 0x7fff_ffff_ffff && (files.contains_key(rest[i].1.mmap.file) ==> rest[i].1.offset + rest[i].1.used <= files[rest[i].1.mmap.file].len()) by { assert(rest[i] == log[i]); }
        lemma_chain_frame(rest, col, files, files2, file, lo, hi);
        assert(log[log.len() - 1] == log.last());
        if c == col && files.contains_key(b.mmap.file) {
            if b.mmap.file == file {
                lemma_payloads_frame(files[file], files2[file], b.offset as int, b.offset + b.used);
            }
        }
    }
}
