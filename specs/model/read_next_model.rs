// assumed contracts of read_next's callees (each proved in its own unit, or trusted where stated)
impl Block {
    #[verifier::external_body]
    pub fn read(&self, in_block_offset: u64) -> (r: IoResult<(Entry, usize)>)
        ensures r matches Ok(p) ==> p.1 == PREFIX_META_SIZE + p.0.data.len() && p.1 < 0x100_0000_0000
            // context W: a sealed block is packed up to `used`, so an entry that starts before `used` ends at or before it
            && (in_block_offset < self.used ==> in_block_offset + p.1 <= self.used)
    { unimplemented!() }
}

impl Walrus {
    #[verifier::external_body]
    fn should_persist(&self, info: &mut ColReaderInfo, force: bool) -> (ret: bool)
        ensures
            self.read_consistency is StrictlyAtOnce ==> ret && *final(info) == *old(info),
            frame_only_counter(*old(info), *final(info)),
    { unimplemented!() }

    #[verifier::external_body]
    fn decrement_topic_entry_count(&mut self, topic: &str, delta: u64)
        ensures
            final(self).topic_entry_counts@ == counts_after_dec(old(self).topic_entry_counts@, topic@, delta),
            final(self).read_offset_index == old(self).read_offset_index,
            final(self).writers == old(self).writers,
            final(self).read_consistency == old(self).read_consistency,
            final(self).globals == old(self).globals,
    { unimplemented!() }
}

// ---- well-formedness of what read_next looks at (established by alloc_block / Writer / recovery units)
pub open spec fn wf_block(b: Block) -> bool {
    b.used <= b.limit && b.limit <= 0x4000_0000 && b.offset + b.limit <= 0xFFFF_FFFF_FFFF && b.id < 0x8000_0000_0000_0000
}
pub open spec fn wf_col(c: ColReaderInfo) -> bool {
    &&& forall|i: int| 0 <= i < c.chain.len() ==> wf_block(#[trigger] c.chain[i])
    &&& c.cur_block_idx <= c.chain.len()
    &&& c.chain.len() < 0x1_0000_0000
    &&& c.tail_block_id < 0x8000_0000_0000_0000
}
pub open spec fn wf_writers(m: Map<String, WriterH>) -> bool {
    forall|k: String| #[trigger] m.contains_key(k) ==> wf_block(m[k].block) && m[k].written <= m[k].block.limit
}

// logical byte position of the sealed part of the cursor: bytes of all blocks before it + offset inside it
pub open spec fn sum_used(chain: Seq<Block>, n: int) -> int
    decreases n
{
    if n <= 0 { 0 } else { sum_used(chain, n - 1) + chain[n - 1].used }
}
// (an offset at or past `used` denotes the same position as the start of the next block)
pub open spec fn sealed_pos(c: ColReaderInfo) -> int {
    if c.cur_block_idx < c.chain.len() {
        let used = c.chain[c.cur_block_idx as int].used;
        sum_used(c.chain@, c.cur_block_idx as int) + (if c.cur_block_offset < used { c.cur_block_offset } else { used })
    } else {
        sum_used(c.chain@, c.chain.len() as int)
    }
}
pub open spec fn tail_flag() -> u64 { 1u64 << 63 }

// "block `id` lies entirely before the cursor": the only blocks a read may mark as checkpointed
pub open spec fn id_before(chain: Seq<Block>, idx: int, id: u64) -> bool {
    exists|i: int| 0 <= i < idx && i < chain.len() && (#[trigger] chain[i]).id == id
}
pub open spec fn marks_ok(calls: Seq<u64>, from: int, chain: Seq<Block>, idx: int) -> bool {
    forall|k: int| from <= k < calls.len() ==> id_before(chain, idx, #[trigger] calls[k])
}
pub proof fn lemma_marks_advance(calls: Seq<u64>, from: int, chain: Seq<Block>, idx: int)
    requires marks_ok(calls, from, chain, idx), 0 <= idx < chain.len(), from <= calls.len(),
    ensures marks_ok(calls.push(chain[idx].id), from, chain, idx + 1)
{
    let calls2 = calls.push(chain[idx].id);
    assert forall|k: int| from <= k < calls2.len() implies id_before(chain, idx + 1, #[trigger] calls2[k]) by {
        if k < calls.len() {
            assert(calls2[k] == calls[k]);
            assert(id_before(chain, idx, calls[k]));
            let i = choose|i: int| 0 <= i < idx && i < chain.len() && (#[trigger] chain[i]).id == calls[k];
            assert(0 <= i < idx + 1 && chain[i].id == calls2[k]);
        } else {
            assert(chain[idx].id == calls2[k]);
        }
    }
}

// C09: a position written to the persisted index for the tail block the reader is already on must not lie
// behind what this reader has consumed from that block in memory (otherwise a restart redelivers without bound)
pub open spec fn persist_ok(e: (Seq<char>, u64, u64), c: ColReaderInfo) -> bool {
    (e.1 == (c.tail_block_id | (1u64 << 63))) ==> e.2 >= c.tail_offset
}
pub open spec fn persists_ok(log: Seq<(Seq<char>, u64, u64)>, from: int, c: ColReaderInfo) -> bool {
    forall|k: int| from <= k < log.len() ==> persist_ok(#[trigger] log[k], c)
}

pub proof fn lemma_tail_flag_inj(a: u64, b: u64)
    requires a < 0x8000_0000_0000_0000, b < 0x8000_0000_0000_0000,
    ensures (a | (1u64 << 63)) == (b | (1u64 << 63)) ==> a == b
{
    assert(a < 0x8000_0000_0000_0000 && b < 0x8000_0000_0000_0000 && (a | (1u64 << 63)) == (b | (1u64 << 63)) ==> a == b) by (bit_vector);
}

pub proof fn lemma_flag_ge(a: u64)
    ensures (a | (1u64 << 63)) >= 0x8000_0000_0000_0000
{
    assert((a | (1u64 << 63)) >= 0x8000_0000_0000_0000) by (bit_vector);
}
