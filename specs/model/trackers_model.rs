// The explicit Globals (R7): the two static tables and the deletion channel of allocator.rs / mod.rs.
pub struct Globals {
    pub blocks: HashMap<usize, BlockState>,
    pub files: HashMap<String, FileState>,
    pub deletions: Vec<String>,     // paths sent on DELETION_TX, in order
}
pub struct BlockStateTracker {}
pub struct FileStateTracker {}

pub open spec fn zero_file() -> FileState {
    FileState { locked_block_ctr: 0, checkpoint_block_ctr: 0, total_blocks: 0, is_fully_allocated: false }
}
pub open spec fn reg_file(files: Map<String, FileState>, p: String) -> Map<String, FileState> {
    if files.contains_key(p) { files } else { files.insert(p, zero_file()) }
}
pub open spec fn wadd(x: u16) -> u16 { if x == 0xffff { 0 } else { (x + 1) as u16 } }
pub open spec fn wsub(x: u16) -> u16 { if x == 0 { 0xffff } else { (x - 1) as u16 } }

/// flush_check's readiness rule (allocator.rs 188-200)
pub open spec fn ready(files: Map<String, FileState>, p: String) -> bool {
    files.contains_key(p) && files[p].is_fully_allocated && files[p].locked_block_ctr == 0
        && files[p].total_blocks > 0 && files[p].checkpoint_block_ctr >= files[p].total_blocks
}
pub open spec fn after_flush_check(d: Seq<String>, files: Map<String, FileState>, p: String) -> Seq<String> {
    if ready(files, p) { d.push(p) } else { d }
}

pub open spec fn inc_ckpt(files: Map<String, FileState>, p: String) -> Map<String, FileState> {
    if files.contains_key(p) { files.insert(p, FileState { checkpoint_block_ctr: wadd(files[p].checkpoint_block_ctr), ..files[p] }) } else { files }
}
pub open spec fn upd_locked(files: Map<String, FileState>, p: String, up: bool) -> Map<String, FileState> {
    if files.contains_key(p) { files.insert(p, FileState { locked_block_ctr: if up { wadd(files[p].locked_block_ctr) } else { wsub(files[p].locked_block_ctr) }, ..files[p] }) } else { files }
}

// ---- C12 counting invariant: per file, the two counters count exactly the registered / checkpointed blocks of that file
pub open spec fn blk_set(blocks: Map<usize, BlockState>, p: String) -> Set<usize> {
    blocks.dom().filter(|b: usize| blocks[b].file_path == p)
}
pub open spec fn ckpt_set(blocks: Map<usize, BlockState>, p: String) -> Set<usize> {
    blocks.dom().filter(|b: usize| blocks[b].file_path == p && blocks[b].is_checkpointed)
}
pub open spec fn ginv(blocks: Map<usize, BlockState>, files: Map<String, FileState>) -> bool {
    &&& forall|p: String| #[trigger] files.contains_key(p) ==> files[p].checkpoint_block_ctr as nat == ckpt_set(blocks, p).len()
            && files[p].total_blocks as nat == blk_set(blocks, p).len() && blk_set(blocks, p).len() < 0xffff
    &&& forall|b: usize| #[trigger] blocks.contains_key(b) ==> files.contains_key(blocks[b].file_path)
}
pub open spec fn all_ckpt(blocks: Map<usize, BlockState>, p: String) -> bool {
    forall|b: usize| #[trigger] blocks.contains_key(b) && blocks[b].file_path == p ==> blocks[b].is_checkpointed
}

/// the reclaimer is told to delete p only if every block ever registered for p is checkpointed
pub proof fn lemma_ready_means_all_checkpointed(blocks: Map<usize, BlockState>, files: Map<String, FileState>, p: String)
    requires ginv(blocks, files), ready(files, p)
    ensures all_ckpt(blocks, p)
{
    let c = ckpt_set(blocks, p);
    let t = blk_set(blocks, p);
    assert(c.subset_of(t));
    lemma_len_subset(c, t);
    lemma_subset_equality(c, t);
    assert forall|b: usize| #[trigger] blocks.contains_key(b) && blocks[b].file_path == p implies blocks[b].is_checkpointed by {
        assert(t.contains(b));
        assert(c.contains(b));
    }
}

/// marking a not-yet-checkpointed block and bumping its file's counter keeps the invariant; marking it again must not bump
pub proof fn lemma_mark_preserves(blocks: Map<usize, BlockState>, files: Map<String, FileState>, id: usize, blocks2: Map<usize, BlockState>, files2: Map<String, FileState>)
    requires
        ginv(blocks, files), blocks.contains_key(id),
        blocks2 == blocks.insert(id, BlockState { is_checkpointed: true, ..blocks[id] }),
        files2 == (if blocks[id].is_checkpointed { files } else { inc_ckpt(files, blocks[id].file_path) }),
    ensures ginv(blocks2, files2)
{
    let p = blocks[id].file_path;
    assert forall|q: String| #[trigger] files2.contains_key(q) implies files2[q].checkpoint_block_ctr as nat == ckpt_set(blocks2, q).len()
            && files2[q].total_blocks as nat == blk_set(blocks2, q).len() && blk_set(blocks2, q).len() < 0xffff by {
        assert(files.contains_key(q));
        assert(blk_set(blocks2, q) =~= blk_set(blocks, q));
        if q == p && !blocks[id].is_checkpointed {
            assert(ckpt_set(blocks2, q) =~= ckpt_set(blocks, q).insert(id));
            assert(!ckpt_set(blocks, q).contains(id));
            assert(ckpt_set(blocks, q).subset_of(blk_set(blocks, q)));
            lemma_len_subset(ckpt_set(blocks, q), blk_set(blocks, q));
        } else {
            assert(ckpt_set(blocks2, q) =~= ckpt_set(blocks, q));
        }
    }
    assert forall|b: usize| #[trigger] blocks2.contains_key(b) implies files2.contains_key(blocks2[b].file_path) by {
        if b != id { assert(blocks.contains_key(b)); }
    }
}

// conditional (requires-free) forms used as hints inside set_checkpointed_true: if the code does not have the
// expected effect the labelled postconditions fail, not these calls
pub proof fn lemma_mark_step(blocks: Map<usize, BlockState>, files: Map<String, FileState>, id: usize, blocks2: Map<usize, BlockState>)
    ensures (ginv(blocks, files) && blocks.contains_key(id) && blocks[id].is_checkpointed
             && blocks2 == blocks.insert(id, BlockState { is_checkpointed: true, ..blocks[id] })) ==> ginv(blocks2, files)
{
    if ginv(blocks, files) && blocks.contains_key(id) && blocks[id].is_checkpointed
        && blocks2 == blocks.insert(id, BlockState { is_checkpointed: true, ..blocks[id] }) {
        lemma_mark_preserves(blocks, files, id, blocks2, files);
    }
}
pub proof fn lemma_flush_step(blocks: Map<usize, BlockState>, files: Map<String, FileState>, id: usize, blocks2: Map<usize, BlockState>, files2: Map<String, FileState>, p: String)
    ensures (ginv(blocks, files) && blocks.contains_key(id) && !blocks[id].is_checkpointed && p == blocks[id].file_path
             && blocks2 == blocks.insert(id, BlockState { is_checkpointed: true, ..blocks[id] }) && files2 == inc_ckpt(files, p))
            ==> ginv(blocks2, files2) && (ready(files2, p) ==> all_ckpt(blocks2, p))
{
    if ginv(blocks, files) && blocks.contains_key(id) && !blocks[id].is_checkpointed && p == blocks[id].file_path
        && blocks2 == blocks.insert(id, BlockState { is_checkpointed: true, ..blocks[id] }) && files2 == inc_ckpt(files, p) {
        lemma_mark_preserves(blocks, files, id, blocks2, files2);
        if ready(files2, p) { lemma_ready_means_all_checkpointed(blocks2, files2, p); }
    }
}

// ---- BlockAllocator (allocator.rs 12-178) stand-ins
pub type IoResult<T> = Result<T, IoError>;
pub struct MmapH { pub file: int }
impl Clone for MmapH { fn clone(&self) -> (r: Self) ensures r == *self { MmapH { file: self.file } } }

// Arc<WalPathManager>: create_new_file() yields the path of a freshly created, preallocated WAL file
pub struct PathsH { pub root: int }
impl PathsH {
    #[verifier::external_body]
    pub fn create_new_file(&self) -> (r: IoResult<String>) { unimplemented!() }
}
// SharedMmapKeeper::get_mmap_arc(path)
#[verifier::external_body]
pub fn mmap_keeper_get(path: &String) -> (r: IoResult<MmapH>) { unimplemented!() }

impl Clone for Block {
    #[verifier::external_body]
    fn clone(&self) -> (r: Self) ensures r == *self { unimplemented!() }
}

pub open spec fn ctr_ckpt(files: Map<String, FileState>, q: String) -> u16 { if files.contains_key(q) { files[q].checkpoint_block_ctr } else { 0 } }
pub open spec fn ctr_total(files: Map<String, FileState>, q: String) -> u16 { if files.contains_key(q) { files[q].total_blocks } else { 0 } }

/// what an allocation may do to the tables: register the fresh block id for file p, count it once in p's total,
/// possibly register further files with zero counters, and leave every other counter alone
pub open spec fn alloc_effect(blocks: Map<usize, BlockState>, files: Map<String, FileState>, id: usize, p: String, blocks2: Map<usize, BlockState>, files2: Map<String, FileState>) -> bool {
    &&& !blocks.contains_key(id)
    &&& blocks2 == blocks.insert(id, BlockState { file_path: p, is_checkpointed: false })
    &&& files2.contains_key(p)
    &&& forall|q: String| files.contains_key(q) ==> #[trigger] files2.contains_key(q)
    &&& forall|q: String| #[trigger] files2.contains_key(q) && q != p ==> files2[q].checkpoint_block_ctr == ctr_ckpt(files, q) && files2[q].total_blocks == ctr_total(files, q)
    &&& files2[p].checkpoint_block_ctr == ctr_ckpt(files, p)
    &&& files2[p].total_blocks == wadd(ctr_total(files, p))
}

pub proof fn lemma_alloc_step(blocks: Map<usize, BlockState>, files: Map<String, FileState>, id: usize, p: String, blocks2: Map<usize, BlockState>, files2: Map<String, FileState>)
    ensures (ginv(blocks, files) && alloc_effect(blocks, files, id, p, blocks2, files2) && blk_set(blocks, p).len() + 1 < 0xffff) ==> ginv(blocks2, files2)
{
    if ginv(blocks, files) && alloc_effect(blocks, files, id, p, blocks2, files2) && blk_set(blocks, p).len() + 1 < 0xffff {
        assert forall|q: String| #[trigger] files2.contains_key(q) implies files2[q].checkpoint_block_ctr as nat == ckpt_set(blocks2, q).len()
                && files2[q].total_blocks as nat == blk_set(blocks2, q).len() && blk_set(blocks2, q).len() < 0xffff by {
            assert(ckpt_set(blocks2, q) =~= ckpt_set(blocks, q));
            if !files.contains_key(q) {
                // a file that was not registered has no blocks: every block's file is registered
                assert(blk_set(blocks, q) =~= Set::<usize>::empty());
                assert(ckpt_set(blocks, q) =~= Set::<usize>::empty());
            }
            if q == p {
                assert(blk_set(blocks2, q) =~= blk_set(blocks, q).insert(id));
            } else {
                assert(blk_set(blocks2, q) =~= blk_set(blocks, q));
            }
        }
        assert forall|b: usize| #[trigger] blocks2.contains_key(b) implies files2.contains_key(blocks2[b].file_path) by {
            if b != id { assert(blocks.contains_key(b)); assert(files.contains_key(blocks[b].file_path)); }
        }
    }
}

pub proof fn lemma_alloc_arith(want: u64)
    requires 0 < want <= 1073741824
    ensures
        (want + 10485760 - 1) / 10485760 <= 103,
        (want + 10485760 - 1) / 10485760 >= 1,
        ((want + 10485760 - 1) / 10485760) * 10485760 >= want,
        (((want + 10485760 - 1) / 10485760) * 10485760) % 10485760 == 0,
{
    let u = (want + 10485760 - 1) / 10485760;
    assert(u * 10485760 >= want && u <= 103 && u >= 1 && (u * 10485760) % 10485760 == 0) by (nonlinear_arith)
        requires u == (want + 10485760 - 1) / 10485760, 0 < want <= 1073741824;
}

pub proof fn lemma_aligned_room(o: u64)
    ensures (o % 10485760 == 0 && o < 1048576000) ==> o + 10485760 <= 1048576000,
            (o % 10485760 == 0) ==> (o + 10485760) % 10485760 == 0,
{
    if o % 10485760 == 0 {
        let q = o / 10485760;
        assert(o == q * 10485760 && (o < 1048576000 ==> q <= 99) && (o + 10485760) % 10485760 == 0) by (nonlinear_arith)
            requires q == o / 10485760, o % 10485760 == 0;
    }
}
