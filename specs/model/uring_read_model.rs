// io_uring READ side of batch_read_for_topic (R10).  A-URING: a read completion with result == requested size means the
// buffer registered for that operation holds exactly those bytes of the file behind the submitted descriptor.
// A-URING-BUF: the buffer of the operation with user_data u is temp_buffers[u] (the code moves it there right after taking
// its pointer; the rule that rewrites Read::new is matched on that exact text).
#[derive(Clone, Copy)]
pub struct FdG { pub file: int }
pub struct ReadOp { pub file: int, pub size: u32, pub offset: u64, pub ud: u64 }
pub struct Cqe { pub ud: u64, pub res: i32 }
impl Cqe {
    pub fn user_data(&self) -> (r: u64) ensures r == self.ud { self.ud }
    pub fn result(&self) -> (r: i32) ensures r == self.res { self.res }
}
pub struct RingR { pub subs: Ghost<Seq<ReadOp>>, pub cqes: Ghost<Seq<(u64, i32)>>, pub taken: Ghost<int>, pub submitted: Ghost<bool> }
// `read_plan.blk.mmap.storage().as_fd()` + `io_uring::types::Fd(fd_backend.file().as_raw_fd())`: the descriptor of THIS block's file
#[verifier::external_body]
pub fn mmap_fd(m: &MmapH) -> (r: Option<FdG>) ensures r matches Some(f) ==> f.file == m.file { unimplemented!() }
#[verifier::external_body]
pub fn read_op_new(fd: FdG, size: u32, offset: u64, ud: u64) -> (r: ReadOp) ensures r.file == fd.file && r.size == size && r.offset == offset && r.ud == ud { unimplemented!() }
pub open spec fn filled(buf: Seq<u8>, op: ReadOp) -> bool {
    op.offset + op.size <= disk(op.file).len() && buf == disk(op.file).subrange(op.offset as int, op.offset + op.size)
}
/// every completion belongs to a submitted read - and if it reports the full size, that read's buffer is filled; every submitted
/// read completes
#[verifier::opaque]
pub open spec fn completions_ok(subs: Seq<ReadOp>, cqes: Seq<(u64, i32)>, bufs: Seq<Vec<u8>>) -> bool {
    &&& forall|j: int| 0 <= j < cqes.len() ==> exists|i: int| 0 <= i < subs.len() && (#[trigger] cqes[j]).0 == (#[trigger] subs[i]).ud
            && ((cqes[j].1 == subs[i].size as int && subs[i].ud < bufs.len()) ==> filled(bufs[subs[i].ud as int]@, subs[i]))
    &&& forall|i: int| 0 <= i < subs.len() ==> exists|j: int| 0 <= j < cqes.len() && (#[trigger] cqes[j]).0 == (#[trigger] subs[i]).ud
}
impl RingR {
    #[verifier::external_body]
    pub fn push(&mut self, op: &ReadOp) -> (r: Result<(), ()>)
        requires !old(self).submitted@
        ensures r is Ok ==> final(self).subs@ == old(self).subs@.push(*op), r is Err ==> final(self).subs == old(self).subs,
                final(self).submitted == old(self).submitted, final(self).cqes == old(self).cqes, final(self).taken == old(self).taken,
    { unimplemented!() }
    // submit + wait: one completion per submitted read, any order, any result code (<0: errno, 0..=size: bytes read); a
    // completion with the full size means the operation's buffer (temp_buffers[ud]) now holds the bytes of the file range
    #[verifier::external_body]
    pub fn submit_and_wait(&mut self, n: usize, bufs: &mut Vec<Vec<u8>>) -> (r: IoResult<usize>)
        requires !old(self).submitted@
        ensures
            final(self).subs == old(self).subs, final(bufs)@.len() == old(bufs)@.len(),
            forall|k: int| 0 <= k < old(bufs)@.len() ==> (#[trigger] final(bufs)@[k])@.len() == old(bufs)@[k]@.len(),
            r is Ok ==> final(self).submitted@ && final(self).taken@ == 0 && final(self).cqes@.len() == n && (n == final(self).subs@.len() ==> completions_ok(final(self).subs@, final(self).cqes@, final(bufs)@)),
            r is Err ==> !final(self).submitted@,
    { unimplemented!() }
    #[verifier::external_body]
    pub fn completion_next(&mut self) -> (r: Option<Cqe>)
        requires old(self).submitted@
        ensures
            final(self).cqes == old(self).cqes, final(self).subs == old(self).subs, final(self).submitted == old(self).submitted,
            match r {
                Some(c) => old(self).taken@ < old(self).cqes@.len() && (c.ud, c.res) == old(self).cqes@[old(self).taken@] && final(self).taken@ == old(self).taken@ + 1,
                None => old(self).taken@ >= old(self).cqes@.len() && final(self).taken@ == old(self).taken@ },
    { unimplemented!() }
}
/// what range k of the plan asks for
pub open spec fn want_bytes(p: ReadPlan) -> Seq<u8> { disk(p.blk.mmap.file).subrange(p.blk.offset + p.start, p.blk.offset + p.end) }
