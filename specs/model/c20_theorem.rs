proof fn c20_serde_attributes_symmetric()
    ensures
        SERDE_SYMMETRIC_ClusterState && SERDE_SYMMETRIC_TopicState, //@L C20:serde_attributes_keep_bincode_roundtrip
{}

// "A metadata snapshot restored into a fresh state machine reproduces the original state exactly"
fn c20_snapshot_then_restore(src: &Metadata, dst: &mut Metadata) -> (r: Result<(), String>)
    ensures
        r is Ok && final(dst).state == src.state, //@L C20:theorem_restore_of_snapshot_reproduces_state
{
    proof { axiom_bincode_roundtrip(src.state); c20_serde_attributes_symmetric(); }
    let bytes = src.snapshot();
    dst.restore(bytes.as_slice())
}
