// C01 (byte identity), as a theorem over the two contracts: what Block::write wrote is what Block::read returns,
// as long as nobody wrote into that byte range in between.
fn c01_write_then_read(b: &Block, sys: &mut Sys, off: u64, data: &[u8], owner: &str, nbs: u64) -> (r: IoResult<(Entry, usize)>)
    requires
        old(sys).files@.contains_key(b.mmap.file), bytes_well_formed_w(),
        b.offset + off + PREFIX_META_SIZE + data@.len() <= old(sys).files@[b.mmap.file].len(),
        old(sys).files@[b.mmap.file].len() <= 0x7fff_ffff_ffff,
    ensures
        r matches Ok(p) ==> p.0.data@ == data@ && p.1 == PREFIX_META_SIZE + data@.len(), //@L C01:theorem_read_after_write_is_byte_identical
        r is Err ==> final(sys).files@ == old(sys).files@, //@L C04:theorem_failed_write_is_invisible
{
    match b.write(sys, off, data, owner, nbs) {
        Ok(()) => {
            let r = b.read(sys, off);
            assert(r is Ok);
            r
        }
        Err(e) => Err(e),
    }
}
