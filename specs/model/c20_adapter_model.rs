// octopii adapter (MemStateMachine) stand-ins: tokio RwLock elided (R13/R2), openraft types not needed by the region.
pub struct IoE { pub k: u8 }
pub struct AppSm { pub id: int }                      // Arc<dyn StateMachineTrait>: the application state machine
pub uninterp spec fn app_snapshot_bytes(sm: AppSm) -> Seq<u8>;    // what sm.snapshot() returns now
impl AppSm {
    #[verifier::external_body]
    pub fn snapshot(&self) -> (r: Vec<u8>) ensures r@ == app_snapshot_bytes(*self) { unimplemented!() }
}
pub struct KvMap { pub m: Ghost<Map<Seq<char>, Seq<char>>> }       // BTreeMap<String, String> (StateMachineData.data)
pub struct StateMachineData { pub data: KvMap }
pub struct MemStateMachine { pub sm: AppSm, pub state_machine: StateMachineData }
pub uninterp spec fn enc_kv(m: Map<Seq<char>, Seq<char>>) -> Seq<u8>;
// bincode::serialize(&state_machine.data).map_err(..)
#[verifier::external_body]
pub fn bincode_serialize_kv(m: &KvMap) -> (r: Result<Vec<u8>, IoE>) ensures r matches Ok(v) ==> v@ == enc_kv(m.m@) { unimplemented!() }
