// C06/C09: where a reader stands after hydrating from the persisted cursor (batch_read_for_topic, "Hydrate from index" + "Fold").
// A persisted cursor is either (block index in the sealed chain, offset) or (TAIL_FLAG | block id, offset in that block).
pub open spec fn is_tail(pos: (u64, u64)) -> bool { (pos.0 & (1u64 << 63)) != 0 }
pub open spec fn tail_id(pos: (u64, u64)) -> u64 { pos.0 & (!(1u64 << 63)) }
pub open spec fn min64(a: u64, b: u64) -> u64 { if a <= b { a } else { b } }
