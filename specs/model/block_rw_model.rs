/// the bytes at [a, a+256+|payload|) are a well-formed entry carrying exactly this payload and metadata
pub open spec fn entry_written(d: Seq<u8>, a: int, payload: Seq<u8>, owner: Seq<char>, nbs: u64) -> bool {
    &&& entry_ok_d(d, a)
    &&& entry_size_d(d, a) == payload.len()
    &&& d.subrange(a + 256, a + 256 + payload.len()) == payload
    &&& hdr_meta_d(d, a).owned_by@ == owner
    &&& hdr_meta_d(d, a).next_block_start == nbs
}

pub proof fn lemma_len_prefix(n: usize)
    requires n <= 254
    ensures meta_len_of((n & 0xFF) as u8, ((n >> 8) & 0xFF) as u8) == n
{
    assert(n <= 254 ==> (((n & 0xFF) as u8) as usize) | ((((n >> 8) & 0xFF) as u8) as usize) << 8 == n) by (bit_vector);
}

pub proof fn lemma_entry_written(d: Seq<u8>, a: int, hdr: Seq<u8>, data: Seq<u8>, meta: Metadata, mb: Seq<u8>)
    requires
        0 <= a, a + 256 + data.len() <= d.len(), hdr.len() == 256,
        mb == spec_meta_bytes(meta), 1 <= mb.len() <= 254,
        meta_len_of(hdr[0], hdr[1]) == mb.len(), hdr.subrange(2, 2 + mb.len() as int) == mb,
        meta.read_size == data.len(), meta.checksum == fnv1a(data),
    ensures
        entry_written(write_at(d, a, hdr + data), a, data, meta.owned_by@, meta.next_block_start),
        write_at(d, a, hdr + data).len() == d.len(),
        write_at(d, a, hdr + data).subrange(a, a + 256 + data.len()) == hdr + data,
{
    let d2 = write_at(d, a, hdr + data);
    let c = hdr + data;
    axiom_rkyv_roundtrip(meta);
    assert(d2.len() == d.len());
    assert(d2.subrange(a, a + 256 + data.len()) =~= c);
    assert(d2[a] == hdr[0] && d2[a + 1] == hdr[1]);
    assert(d2.subrange(a + 2, a + 2 + mb.len() as int) =~= mb);
    assert(d2.subrange(a + 256, a + 256 + data.len()) =~= data);
    assert(hdr_meta_d(d2, a) == meta);
}


// context W for the decode inside Block::read (damaged bytes: C11's Kani harnesses)
pub open spec fn bytes_well_formed_w() -> bool {
    &&& forall|b: Seq<u8>| #[trigger] valid_archive(b)
    &&& forall|b: Seq<u8>| (#[trigger] spec_decode(b)).read_size < 0x100_0000_0000
}
pub open spec fn entry_hdr_ok_d(d: Seq<u8>, a: int) -> bool {
    0 <= a && a + 256 <= d.len() && 1 <= meta_len_of(d[a], d[a + 1]) <= 254
}
