// R9: `key.chars().map(<closure>).collect::<String>()` -- std iterator semantics (A-STD): the result has one
// char per input char, each the image under the lifted closure `sanitize_char` (whose contract is proved).
#[verifier::external_body]
pub fn str_map_chars_sanitize_char_raw(key: &str) -> (r: String)
    ensures
        r@.len() == key@.len(),
        forall|i: int| 0 <= i < key@.len() ==> #[trigger] r@[i] == sanitize_char_spec(key@[i]),
{
    key.chars().map(|c| sanitize_char(c)).collect()
}

// verified wrapper: the consequences the callers need (no trusted facts added)
pub fn str_map_chars_sanitize_char(key: &str) -> (r: String)
    ensures
        r@.len() == key@.len(),
        forall|i: int| 0 <= i < key@.len() ==> #[trigger] r@[i] == sanitize_char_spec(key@[i]),
        all_allowed(r@),
        all_allowed(key@) ==> r@ == key@,
{
    let r = str_map_chars_sanitize_char_raw(key);
    proof { lemma_mapped_allowed(key@, r@); }
    r
}

// verified wrapper around format!("ns_{:x}", v)
pub fn format_ns_hex_checked(v: u64) -> (r: String)
    ensures all_allowed(r@), safe_component(r@), !all_chars(r@, '_'), !all_chars(r@, '.'), r@.len() >= 4,
{
    let r = format_ns_hex(v);
    proof { lemma_ns_hex_safe(r@, v); }
    r
}
