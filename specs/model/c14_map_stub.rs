// R9: `key.chars().map(<closure>).collect::<String>()` -- std iterator semantics (A-STD): the result has one
// char per input char, each the image under the lifted closure `sanitize_char` (whose contract is proved).
#[verifier::external_body]
pub fn str_map_chars_sanitize_char(key: &str) -> (r: String)
    ensures
        r@.len() == key@.len(),
        forall|i: int| 0 <= i < key@.len() ==> #[trigger] r@[i] == sanitize_char_spec(key@[i]),
{
    key.chars().map(|c| sanitize_char(c)).collect()
}
