// C06: WAL file names (config.rs now_millis_str / millis_str_after). R7: the process-wide LAST_MILLIS is an explicit parameter.
pub struct ClockG { pub x: u8 }
// SystemTime::now() ... as_millis(): an arbitrary instant (the wall clock may repeat or step back)
#[verifier::external_body]
pub fn wall_clock_millis() -> (r: u128) { unimplemented!() }
#[verifier::external_body]
pub fn u128_to_u64_or_max(v: u128) -> (r: u64) ensures r == (if v <= u64::MAX as u128 { v as u64 } else { u64::MAX }) { unimplemented!() }
// AtomicU64::compare_exchange under A-SEQ (no other thread): succeeds exactly when the cell holds `current`
#[verifier::external_body]
pub fn cas_u64(cell: &mut u64, current: u64, new: u64) -> (r: Result<u64, u64>)
    ensures *old(cell) == current ==> r == Ok::<u64, u64>(current) && *final(cell) == new,
            *old(cell) != current ==> r == Err::<u64, u64>(*old(cell)) && *final(cell) == *old(cell),
{ unimplemented!() }
// u64::to_string(): the decimal name; the numeric value of a name is what recovery's sort and the floor compare (13-digit names)
pub uninterp spec fn name_of(v: u64) -> Seq<char>;
#[verifier::external_body]
pub fn u64_to_string(v: u64) -> (r: String) ensures r@ == name_of(v) { unimplemented!() }
