// Engine stand-ins (R5, R6, R15). Everything `external_body` / `uninterp` / `axiom` here is trusted.
pub type IoResult<T> = Result<T, IoError>;

pub assume_specification<T: Clone> [<[T]>::to_vec] (s: &[T]) -> (r: Vec<T>)
    ensures r@ == s@;

// logging-only helper in batch_read (value is only printed)
#[verifier::external_body]
pub fn u64_from_be_bytes(c: [u8; 8]) -> u64 { u64::from_be_bytes(c) }

// Arc<SharedMmap>: identity of a mapped / opened WAL file
pub struct MmapH { pub file: int }
impl Clone for MmapH {
    fn clone(&self) -> (r: Self) ensures r == *self { MmapH { file: self.file } }
}

