// Engine stand-ins (R5, R6, R15). Everything `external_body` / `uninterp` / `axiom` here is trusted.
pub type IoResult<T> = Result<T, IoError>;

pub assume_specification<T: Clone> [<[T]>::to_vec] (s: &[T]) -> (r: Vec<T>)
    ensures r@ == s@;

// logging-only helper in batch_read (value is only printed)
#[verifier::external_body]
pub fn u64_from_be_bytes(c: [u8; 8]) -> u64 { u64::from_be_bytes(c) }

// Arc<SharedMmap>: identity of a mapped / opened WAL file
pub struct MmapH { pub file: int }
impl Clone for MmapH {
    fn clone(&self) -> (r: Self) ensures r == *self { MmapH { file: self.file } }
}


// File contents as seen by readers. Read-only units treat the disk as a fixed function (A-SEQ: no concurrent writer).
pub uninterp spec fn disk(file: int) -> Seq<u8>;

// SharedMmap::read(offset, dest) (R6). A-IO: a positional read inside the (preallocated, 1 GB) file fills the whole buffer;
// reads that reach past the end of the file leave unspecified bytes (FdBackend::read ignores the result of read_at).
#[verifier::external_body]
pub fn mmap_read(m: &MmapH, offset: usize, dest: &mut [u8])
    ensures
        final(dest)@.len() == old(dest)@.len(),
        offset + old(dest)@.len() <= disk(m.file).len() ==> final(dest)@ == disk(m.file).subrange(offset as int, offset + old(dest)@.len()),
{ unimplemented!() }
