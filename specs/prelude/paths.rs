// Trusted model of std::path::PathBuf (A-PATH): a path is a sequence of components.
#[verifier::external_type_specification]
#[verifier::external_body]
pub struct ExPathBuf(std::path::PathBuf);

pub uninterp spec fn path_view(p: &std::path::PathBuf) -> Seq<Seq<char>>;

/// what PathBuf::push does for an *arbitrary* string (absolute paths replace, "a/b" adds two, ...)
pub uninterp spec fn path_push_any(base: Seq<Seq<char>>, c: Seq<char>) -> Seq<Seq<char>>;

/// a string that is exactly one normal path component
pub open spec fn safe_component(c: Seq<char>) -> bool {
    &&& c.len() >= 1
    &&& forall|i: int| 0 <= i < c.len() ==> #[trigger] c[i] != '/' && c[i] != '\0'
    &&& c != seq!['.']
    &&& c != seq!['.', '.']
}

pub broadcast axiom fn axiom_path_push_safe(base: Seq<Seq<char>>, c: Seq<char>)
    requires safe_component(c)
    ensures #[trigger] path_push_any(base, c) == base.push(c);

/// `p` lies strictly inside directory `base`: base is a proper prefix, every further component is a normal name
pub open spec fn strictly_inside(p: Seq<Seq<char>>, base: Seq<Seq<char>>) -> bool {
    &&& p.len() > base.len()
    &&& p.subrange(0, base.len() as int) == base
    &&& forall|i: int| base.len() <= i < p.len() ==> safe_component(#[trigger] p[i])
}

// what can be pushed onto a PathBuf in this code base: an owned String (the sanitised key) or a &str
pub trait VxPathComp { spec fn comp(&self) -> Seq<char>; }
impl VxPathComp for String { open spec fn comp(&self) -> Seq<char> { self@ } }
impl<'a> VxPathComp for &'a str { open spec fn comp(&self) -> Seq<char> { self@ } }
impl<'a> VxPathComp for &'a String { open spec fn comp(&self) -> Seq<char> { self@ } }

#[verifier::external_body]
pub fn pathbuf_push<S: VxPathComp + AsRef<std::path::Path>>(p: &mut std::path::PathBuf, c: S)
    ensures path_view(final(p)) == path_push_any(path_view(old(p)), c.comp())
{
    p.push(c)
}

#[verifier::external_body]
pub fn pathbuf_join(p: &std::path::PathBuf, c: &String) -> (r: std::path::PathBuf)
    ensures path_view(&r) == path_push_any(path_view(p), c@)
{
    p.join(c)
}

pub uninterp spec fn data_dir_view() -> Seq<Seq<char>>;

// config.rs wal_data_dir(): WALRUS_DATA_DIR or "wal_files" -- the *configured data directory*
#[verifier::external_body]
pub fn wal_data_dir() -> (r: std::path::PathBuf)
    ensures path_view(&r) == data_dir_view()
{
    unimplemented!()
}

#[verifier::external_body]
pub fn thread_namespace() -> (r: Option<String>) { unimplemented!() }

#[verifier::external_body]
pub fn env_var(name: &str) -> (r: Result<String, ()>) { unimplemented!() }

// PathBuf::ends_with(component): true iff the last component equals it (A-PATH, single normal component)
#[verifier::external_body]
pub fn pathbuf_ends_with(p: &std::path::PathBuf, c: &String) -> (r: bool)
    ensures safe_component(c@) ==> r == (path_view(p).len() >= 1 && path_view(p).last() == c@)
{
    p.ends_with(c)
}

pub trait VxOptString { fn vx_as_deref<'a>(&'a self) -> (r: Option<&'a str>); }
impl VxOptString for Option<String> {
    #[verifier::external_body]
    fn vx_as_deref<'a>(&'a self) -> (r: Option<&'a str>)
        ensures match *self { Some(s) => r matches Some(t) && t@ == s@, None => r is None }
    { self.as_deref() }
}
