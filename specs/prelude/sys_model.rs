// Ghost system state for writer-side units (DESIGN 3.4): the volatile contents of every WAL file.
// A-IO: a positional write that lies inside the file completes fully (FdBackend::write ignores write_at's result;
// the mmap arm is a memcpy). Writing outside the mapping is what SharedMmap::write's debug_asserts forbid: it is a
// *precondition* here, so every caller has to prove its block lies inside its file.
// `synced`: the files whose volatile contents are on stable storage (C10): a write removes its file, a successful flush adds it
pub struct Sys { pub files: Ghost<Map<int, Seq<u8>>>, pub synced: Ghost<Set<int>> }

pub open spec fn write_at(d: Seq<u8>, off: int, data: Seq<u8>) -> Seq<u8> {
    d.subrange(0, off) + data + d.subrange(off + data.len(), d.len() as int)
}

#[verifier::external_body]
pub fn sys_write(sys: &mut Sys, m: &MmapH, offset: usize, data: &[u8])
    requires
        old(sys).files@.contains_key(m.file),
        offset + data@.len() <= old(sys).files@[m.file].len(),   // C16: inside the mapping / the preallocated file
    ensures
        final(sys).files@ == old(sys).files@.insert(m.file, write_at(old(sys).files@[m.file], offset as int, data@)),
        final(sys).synced@ == old(sys).synced@.remove(m.file),
{ unimplemented!() }

#[verifier::external_body]
pub fn sys_read(sys: &Sys, m: &MmapH, offset: usize, dest: &mut [u8])
    requires
        sys.files@.contains_key(m.file),
        offset + old(dest)@.len() <= sys.files@[m.file].len(),
    ensures
        final(dest)@ == sys.files@[m.file].subrange(offset as int, offset + old(dest)@.len()),
{ unimplemented!() }

// SharedMmap::flush (msync / fsync): no effect on the volatile contents; may fail
#[verifier::external_body]
pub fn sys_flush(sys: &mut Sys, m: &MmapH) -> (r: IoResult<()>)
    ensures final(sys).files == old(sys).files,
            r is Ok ==> final(sys).synced@ == old(sys).synced@.insert(m.file),
            r is Err ==> final(sys).synced@ == old(sys).synced@,
{ unimplemented!() }

// SharedMmap::len(): the length of the mapping / file
#[verifier::external_body]
pub fn sys_len(sys: &Sys, m: &MmapH) -> (r: usize)
    requires sys.files@.contains_key(m.file)
    ensures r == sys.files@[m.file].len()
{ unimplemented!() }
