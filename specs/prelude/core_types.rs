// Shared stand-ins for the engine's foreign / concurrency types (rules R2-R5, R15).
// A-ARITH: 64-bit target (usize == u64), as on every platform the engine supports (io_uring, 1 GiB files)
global size_of usize == 8;

// std::io::Error: only its kind is modelled; message strings are dropped by rule R5.
#[derive(PartialEq, Eq, Clone, Copy)]
pub enum IoKind { Other, InvalidInput, InvalidData, WouldBlock, Unsupported, UnexpectedEof, NotFound }

pub struct IoError { pub kind: IoKind }

pub fn io_err(kind: IoKind) -> (r: IoError)
    ensures r.kind == kind
{
    IoError { kind }
}

// AtomicBool::swap (R4, SEQ): returns the previous value, stores the new one
pub trait VxAtomicBool { fn vx_swap(&mut self, v: bool) -> (r: bool); }
impl VxAtomicBool for bool {
    fn vx_swap(&mut self, v: bool) -> (r: bool)
        ensures r == *old(self), *final(self) == v
    { let o = *self; *self = v; o }
}
