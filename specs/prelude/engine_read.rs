// Read-side stand-ins: the reader map, the persisted index, writers, global trackers (R2, R6, R7, R16).

// ---- WalIndex (index.rs): only `get` and `set` are used by the read path. `set` persists synchronously
// (tmp + fsync + rename, verified separately for C10); here it is the ghost log of persisted positions.
pub struct BlockPos { pub cur_block_idx: u64, pub cur_block_offset: u64 }

pub struct WalIndex {
    pub store: Ghost<Map<Seq<char>, (u64, u64)>>,
    pub log: Ghost<Seq<(Seq<char>, u64, u64)>>,
}

impl WalIndex {
    #[verifier::external_body]
    pub fn get(&self, key: &str) -> (r: Option<BlockPos>)
        ensures match r {
            Some(p) => self.store@.contains_key(key@) && self.store@[key@] == (p.cur_block_idx, p.cur_block_offset),
            None => !self.store@.contains_key(key@) }
    { unimplemented!() }

    #[verifier::external_body]
    pub fn set(&mut self, key: String, idx: u64, offset: u64) -> (r: IoResult<()>)
        ensures
            final(self).log@ == old(self).log@.push((key@, idx, offset)),
            r is Ok ==> final(self).store@ == old(self).store@.insert(key@, (idx, offset)),
    { unimplemented!() }
}

// ---- Arc<Writer> as seen by readers: snapshot_block() returns (active block, published offset)
pub struct WriterH { pub block: Block, pub written: u64 }
impl Clone for WriterH {
    #[verifier::external_body]
    fn clone(&self) -> (r: Self) ensures r == *self { unimplemented!() }
}
impl WriterH {
    #[verifier::external_body]
    pub fn snapshot_block(&self) -> (r: IoResult<(Block, u64)>)
        ensures r matches Ok(p) && p.0 == self.block && p.1 == self.written
    { unimplemented!() }
}

// ---- process-global tracker tables (allocator.rs), seen from the read path as a ghost call log.
// The table functions themselves are verified in unit core_trackers.
pub struct Globals { pub ckpt_calls: Ghost<Seq<u64>> }
impl Globals {
    #[verifier::external_body]
    pub fn set_checkpointed_true(&mut self, block_id: usize)
        ensures final(self).ckpt_calls@ == old(self).ckpt_calls@.push(block_id as u64)
    { unimplemented!() }
}

// `chain.iter().enumerate().find(|(_, b)| b.id == id).map(|(idx, _)| idx)` and `.iter().position(|b| b.id == id)` (R8)
pub open spec fn first_idx_with_id(chain: Seq<Block>, id: u64, i: int) -> bool {
    0 <= i < chain.len() && chain[i].id == id && forall|j: int| 0 <= j < i ==> chain[j].id != id
}
pub fn chain_find_id(chain: &Vec<Block>, id: u64) -> (r: Option<usize>)
    ensures match r {
        Some(i) => first_idx_with_id(chain@, id, i as int),
        None => forall|j: int| 0 <= j < chain.len() ==> chain[j].id != id }
{
    let mut i: usize = 0;
    while i < chain.len()
        invariant i <= chain.len(), forall|j: int| 0 <= j < i ==> chain[j].id != id,
        decreases chain.len() - i,
    {
        if chain[i].id == id { return Some(i); }
        i += 1;
    }
    None
}

impl Clone for Block {
    #[verifier::external_body]
    fn clone(&self) -> (r: Self) ensures r == *self { unimplemented!() }
}

// ---- iterator-adapter desugarings used by the recount (R8); each is a verified loop, not a trusted stub
pub open spec fn seq_sum(s: Seq<u64>, n: int) -> int
    decreases n
{
    if n <= 0 { 0 } else { seq_sum(s, n - 1) + (if n - 1 < s.len() { s[n - 1] as int } else { 0 }) }
}
// `v.iter().take(n).copied().sum::<u64>()`  (A-ARITH: the sum of a topic's per-block entry counts fits in u64)
pub fn vec_sum_prefix(v: &Vec<u64>, n: usize) -> (r: u64)
    requires seq_sum(v@, v.len() as int) <= u64::MAX
    ensures r as int == seq_sum(v@, if n <= v.len() { n as int } else { v.len() as int })
{
    let mut i: usize = 0;
    let mut acc: u64 = 0;
    let m = if n <= v.len() { n } else { v.len() };
    proof { lemma_seq_sum_mono(v@, 0, v.len() as int); }
    while i < m
        invariant i <= m, m <= v.len(), acc as int == seq_sum(v@, i as int), seq_sum(v@, v.len() as int) <= u64::MAX,
        decreases m - i,
    {
        proof { lemma_seq_sum_mono(v@, i + 1, v.len() as int); }
        acc = acc + v[i];
        i += 1;
    }
    acc
}
pub proof fn lemma_seq_sum_mono(s: Seq<u64>, a: int, b: int)
    requires 0 <= a <= b
    ensures seq_sum(s, a) <= seq_sum(s, b)
    decreases b - a
{
    if a < b { lemma_seq_sum_mono(s, a, b - 1); }
}
// `v.get(i).copied().unwrap_or(0)`
pub fn vec_get_or0(v: &Vec<u64>, i: usize) -> (r: u64)
    ensures r == (if i < v.len() { v[i as int] } else { 0 })
{
    if i < v.len() { v[i] } else { 0 }
}
// `chain.get(i)`
pub fn chain_get(chain: &Vec<Block>, i: usize) -> (r: Option<&Block>)
    ensures match r { Some(b) => i < chain.len() && *b == chain[i as int], None => i >= chain.len() }
{
    if i < chain.len() { Some(&chain[i]) } else { None }
}
// `chain.iter().rev().position(|b| b.id == id)`: index counted from the back of the first match from the back
pub fn chain_rev_position_id(chain: &Vec<Block>, id: u64) -> (r: Option<usize>)
    ensures match r {
        Some(p) => p < chain.len() && chain[chain.len() - 1 - p].id == id && forall|j: int| chain.len() - 1 - p < j < chain.len() ==> chain[j].id != id,
        None => forall|j: int| 0 <= j < chain.len() ==> chain[j].id != id }
{
    let mut p: usize = 0;
    while p < chain.len()
        invariant p <= chain.len(), forall|j: int| chain.len() - p <= j < chain.len() ==> chain[j].id != id,
        decreases chain.len() - p,
    {
        if chain[chain.len() - 1 - p].id == id { return Some(p); }
        p += 1;
    }
    None
}
