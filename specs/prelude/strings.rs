// Trusted specifications of the std string / char operations the extracted code calls (rule R9).
// Every item here is an assumption (A-STD) and is listed in the evidence by the assumption scan.

pub open spec fn is_ascii_alnum(c: char) -> bool {
    ('a' <= c && c <= 'z') || ('A' <= c && c <= 'Z') || ('0' <= c && c <= '9')
}

pub assume_specification [char::is_ascii_alphanumeric] (c: &char) -> (r: bool)
    ensures r == is_ascii_alnum(*c);

pub open spec fn all_chars(s: Seq<char>, c: char) -> bool {
    forall|i: int| 0 <= i < s.len() ==> s[i] == c
}

// `s.trim_matches(c).is_empty()`: trimming c from both ends leaves nothing iff every char is c
#[verifier::external_body]
pub fn str_trim_matches_is_empty(s: &String, c: char) -> (r: bool)
    ensures r == all_chars(s@, c)
{
    s.trim_matches(c).is_empty()
}

pub open spec fn is_lower_hex_digit(c: char) -> bool {
    ('0' <= c && c <= '9') || ('a' <= c && c <= 'f')
}

pub open spec fn is_dec_digit(c: char) -> bool { '0' <= c && c <= '9' }

pub uninterp spec fn hex_digits_of(x: u64) -> Seq<char>;

pub broadcast axiom fn axiom_hex_digits(x: u64)
    ensures
        #[trigger] hex_digits_of(x).len() >= 1,
        forall|i: int| 0 <= i < hex_digits_of(x).len() ==> is_lower_hex_digit(#[trigger] hex_digits_of(x)[i]);

// format!("ns_{:x}", v)
#[verifier::external_body]
pub fn format_ns_hex(v: u64) -> (r: String)
    ensures r@ == seq!['n', 's', '_'] + hex_digits_of(v)
{
    format!("ns_{:x}", v)
}

// `s.trim_matches(c)` for a char pattern: the longest middle part that neither starts nor ends with c
pub open spec fn is_trim_of(r: Seq<char>, s: Seq<char>, c: char) -> bool {
    exists|a: int, b: int| 0 <= a <= b <= s.len() && #[trigger] s.subrange(a, b) == r
        && (forall|i: int| 0 <= i < a ==> s[i] == c) && (forall|i: int| b <= i < s.len() ==> s[i] == c)
        && (a < b ==> s[a] != c && s[b - 1] != c)
}
pub trait VxStrTrim { fn vx_trim_matches_char<'a>(&'a self, c: char) -> (r: &'a str); }
impl VxStrTrim for str {
    #[verifier::external_body]
    fn vx_trim_matches_char<'a>(&'a self, c: char) -> (r: &'a str)
        ensures is_trim_of(r@, self@, c)
    { self.trim_matches(c) }
}
impl VxStrTrim for String {
    #[verifier::external_body]
    fn vx_trim_matches_char<'a>(&'a self, c: char) -> (r: &'a str)
        ensures is_trim_of(r@, self@, c)
    { self.trim_matches(c) }
}
pub broadcast proof fn lemma_trim_empty_iff_all(r: Seq<char>, s: Seq<char>, c: char)
    requires #[trigger] is_trim_of(r, s, c)
    ensures (r.len() == 0) == all_chars(s, c)
{
    let (a, b) = choose|a: int, b: int| 0 <= a <= b <= s.len() && #[trigger] s.subrange(a, b) == r
        && (forall|i: int| 0 <= i < a ==> s[i] == c) && (forall|i: int| b <= i < s.len() ==> s[i] == c)
        && (a < b ==> s[a] != c && s[b - 1] != c);
    assert(r.len() == b - a);
    if r.len() == 0 {
        assert forall|i: int| 0 <= i < s.len() implies s[i] == c by { if i < a {} else {} }
    } else {
        assert(s[a] != c);
    }
}
