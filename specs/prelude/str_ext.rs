// R9 (method-rename form): `.m(` on str is renamed to `.vx_m(`, an extension-trait method whose body IS the
// std call and whose `ensures` is the textbook semantics over Seq<char> (assumption A-STD).
pub open spec fn occurs_at(s: Seq<char>, pat: Seq<char>, i: int) -> bool {
    0 <= i && i + pat.len() <= s.len() && s.subrange(i, i + pat.len()) == pat
}
pub open spec fn has_occurrence(s: Seq<char>, pat: Seq<char>) -> bool {
    exists|i: int| #[trigger] occurs_at(s, pat, i)
}
#[verifier::opaque]
pub open spec fn is_last_occ(s: Seq<char>, pat: Seq<char>, i: int) -> bool {
    occurs_at(s, pat, i) && forall|j: int| j > i ==> !occurs_at(s, pat, j)
}
#[verifier::opaque]
pub open spec fn is_first_occ(s: Seq<char>, pat: Seq<char>, i: int) -> bool {
    occurs_at(s, pat, i) && forall|j: int| j < i ==> !occurs_at(s, pat, j)
}
pub open spec fn is_prefix_of(p: Seq<char>, s: Seq<char>) -> bool {
    p.len() <= s.len() && s.subrange(0, p.len() as int) == p
}
pub open spec fn is_suffix_of(p: Seq<char>, s: Seq<char>) -> bool {
    p.len() <= s.len() && s.subrange(s.len() - p.len(), s.len() as int) == p
}
pub open spec fn is_dec_digit_c(c: char) -> bool { '0' <= c && c <= '9' }

pub broadcast proof fn lemma_last_occ_unique(s: Seq<char>, pat: Seq<char>, i: int, j: int)
    requires #[trigger] is_last_occ(s, pat, i), #[trigger] is_last_occ(s, pat, j)
    ensures i == j
{
    reveal(is_last_occ);
}
pub broadcast proof fn lemma_first_occ_unique(s: Seq<char>, pat: Seq<char>, i: int, j: int)
    requires #[trigger] is_first_occ(s, pat, i), #[trigger] is_first_occ(s, pat, j)
    ensures i == j
{
    reveal(is_first_occ);
}
pub broadcast proof fn lemma_last_occ_occurs(s: Seq<char>, pat: Seq<char>, i: int)
    requires #[trigger] is_last_occ(s, pat, i)
    ensures occurs_at(s, pat, i), has_occurrence(s, pat)
{
    reveal(is_last_occ);
}
pub broadcast proof fn lemma_first_occ_occurs(s: Seq<char>, pat: Seq<char>, i: int)
    requires #[trigger] is_first_occ(s, pat, i)
    ensures occurs_at(s, pat, i), has_occurrence(s, pat)
{
    reveal(is_first_occ);
}

/// canonical decimal rendering of an integer (Display for u64/u32/usize)
pub uninterp spec fn dec_digits(n: nat) -> Seq<char>;
/// what `str::parse::<u64>()` returns
pub uninterp spec fn parse_u64_spec(s: Seq<char>) -> Option<u64>;

pub broadcast axiom fn axiom_dec_digits(n: nat)
    ensures
        #[trigger] dec_digits(n).len() >= 1,
        forall|i: int| 0 <= i < dec_digits(n).len() ==> is_dec_digit_c(#[trigger] dec_digits(n)[i]);

pub broadcast axiom fn axiom_parse_dec_digits(n: u64)
    ensures #[trigger] parse_u64_spec(dec_digits(n as nat)) == Some(n);

/// strip repeatedly (trim_start_matches with a &str pattern)
pub open spec fn trim_start_spec(s: Seq<char>, p: Seq<char>) -> Seq<char>
    decreases s.len()
{
    if p.len() > 0 && is_prefix_of(p, s) { trim_start_spec(s.subrange(p.len() as int, s.len() as int), p) } else { s }
}

// the String with a given character sequence (unique by axiom_string_view_injective)
pub uninterp spec fn string_of(s: Seq<char>) -> String;

pub broadcast axiom fn axiom_string_of(s: Seq<char>)
    ensures #[trigger] string_of(s)@ == s;

pub trait VxStr {
    fn vx_strip_prefix<'a>(&'a self, p: &str) -> (r: Option<&'a str>);
    fn vx_strip_suffix<'a>(&'a self, p: &str) -> (r: Option<&'a str>);
    fn vx_starts_with(&self, p: &str) -> (r: bool);
    fn vx_ends_with(&self, p: &str) -> (r: bool);
    fn vx_contains(&self, p: &str) -> (r: bool);
    fn vx_trim_start_matches<'a>(&'a self, p: &str) -> (r: &'a str);
    fn vx_split_once<'a>(&'a self, p: &str) -> (r: Option<(&'a str, &'a str)>);
    fn vx_rsplit_once<'a>(&'a self, p: &str) -> (r: Option<(&'a str, &'a str)>);
    fn vx_rsplitn_collect<'a>(&'a self, n: usize, p: &str) -> (r: Vec<&'a str>);
    fn vx_splitn_collect<'a>(&'a self, n: usize, p: &str) -> (r: Vec<&'a str>);
    fn vx_parse_u64_ok(&self) -> (r: Option<u64>);
    fn vx_to_string(&self) -> (r: String);
}

impl VxStr for str {
    #[verifier::external_body]
    fn vx_strip_prefix<'a>(&'a self, p: &str) -> (r: Option<&'a str>)
        ensures match r {
            Some(t) => is_prefix_of(p@, self@) && t@ == self@.subrange(p@.len() as int, self@.len() as int),
            None => !is_prefix_of(p@, self@) }
    { self.strip_prefix(p) }

    #[verifier::external_body]
    fn vx_strip_suffix<'a>(&'a self, p: &str) -> (r: Option<&'a str>)
        ensures match r {
            Some(t) => is_suffix_of(p@, self@) && t@ == self@.subrange(0, self@.len() - p@.len()),
            None => !is_suffix_of(p@, self@) }
    { self.strip_suffix(p) }

    #[verifier::external_body]
    fn vx_starts_with(&self, p: &str) -> (r: bool) ensures r == is_prefix_of(p@, self@)
    { self.starts_with(p) }

    #[verifier::external_body]
    fn vx_ends_with(&self, p: &str) -> (r: bool) ensures r == is_suffix_of(p@, self@)
    { self.ends_with(p) }

    #[verifier::external_body]
    fn vx_contains(&self, p: &str) -> (r: bool) ensures r == has_occurrence(self@, p@)
    { self.contains(p) }

    #[verifier::external_body]
    fn vx_trim_start_matches<'a>(&'a self, p: &str) -> (r: &'a str) ensures r@ == trim_start_spec(self@, p@)
    { self.trim_start_matches(p) }

    #[verifier::external_body]
    fn vx_split_once<'a>(&'a self, p: &str) -> (r: Option<(&'a str, &'a str)>)
        ensures match r {
            Some((a, b)) => exists|i: int| #[trigger] is_first_occ(self@, p@, i) && a@ == self@.subrange(0, i) && b@ == self@.subrange(i + p@.len(), self@.len() as int),
            None => !has_occurrence(self@, p@) }
    { self.split_once(p) }

    #[verifier::external_body]
    fn vx_rsplit_once<'a>(&'a self, p: &str) -> (r: Option<(&'a str, &'a str)>)
        ensures match r {
            Some((a, b)) => exists|i: int| #[trigger] is_last_occ(self@, p@, i) && a@ == self@.subrange(0, i) && b@ == self@.subrange(i + p@.len(), self@.len() as int),
            None => !has_occurrence(self@, p@) }
    { self.rsplit_once(p) }

    // `s.rsplitn(n, p).collect::<Vec<_>>()`; specified for n == 2 and a non-empty pattern only
    #[verifier::external_body]
    fn vx_rsplitn_collect<'a>(&'a self, n: usize, p: &str) -> (r: Vec<&'a str>)
        ensures n == 2 && p@.len() > 0 ==> (
            if has_occurrence(self@, p@) {
                r@.len() == 2 && exists|i: int| #[trigger] is_last_occ(self@, p@, i)
                    && r@[0]@ == self@.subrange(i + p@.len(), self@.len() as int) && r@[1]@ == self@.subrange(0, i)
            } else { r@.len() == 1 && r@[0]@ == self@ })
    { self.rsplitn(n, p).collect::<Vec<_>>() }

    #[verifier::external_body]
    fn vx_splitn_collect<'a>(&'a self, n: usize, p: &str) -> (r: Vec<&'a str>)
        ensures n == 2 && p@.len() > 0 ==> (
            if has_occurrence(self@, p@) {
                r@.len() == 2 && exists|i: int| #[trigger] is_first_occ(self@, p@, i)
                    && r@[0]@ == self@.subrange(0, i) && r@[1]@ == self@.subrange(i + p@.len(), self@.len() as int)
            } else { r@.len() == 1 && r@[0]@ == self@ })
    { self.splitn(n, p).collect::<Vec<_>>() }

    #[verifier::external_body]
    fn vx_parse_u64_ok(&self) -> (r: Option<u64>) ensures r == parse_u64_spec(self@)
    { self.parse::<u64>().ok() }

    #[verifier::external_body]
    fn vx_to_string(&self) -> (r: String) ensures r@ == self@, r == string_of(self@)
    { self.to_string() }
}

/// Display of the integer types that can appear in `format!("..{}..", n)`
pub trait VxDec { spec fn dec_value(&self) -> nat; }
impl VxDec for u64 { open spec fn dec_value(&self) -> nat { *self as nat } }
impl VxDec for u32 { open spec fn dec_value(&self) -> nat { *self as nat } }
impl VxDec for u16 { open spec fn dec_value(&self) -> nat { *self as nat } }
impl VxDec for u8 { open spec fn dec_value(&self) -> nat { *self as nat } }
impl VxDec for usize { open spec fn dec_value(&self) -> nat { *self as nat } }

// A Rust String is determined by its characters (capacity is not observable through ==, Hash or Eq).
pub broadcast axiom fn axiom_string_view_injective(a: String, b: String)
    requires #[trigger] a@ == #[trigger] b@
    ensures a == b;


pub broadcast proof fn lemma_string_of_view(x: String)
    ensures #[trigger] string_of(x@) == x
{
    axiom_string_of(x@);
    axiom_string_view_injective(string_of(x@), x);
}
