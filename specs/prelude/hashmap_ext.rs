// HashMap::get_mut (vstd has no spec for it). Trusted (A-STD): returns a mutable reference to the stored value;
// when the borrow ends the map equals the old map with that key's value replaced by the final value.
pub assume_specification<'a, K, V, S, A, Q> [std::collections::HashMap::<K, V, S, A>::get_mut] (m: &'a mut std::collections::HashMap<K, V, S, A>, k: &Q) -> (r: std::option::Option<&'a mut V>)
    where
        A: std::alloc::Allocator,
        K: std::cmp::Eq + std::hash::Hash + std::borrow::Borrow<Q>,
        Q: std::marker::MetaSized + std::hash::Hash + std::cmp::Eq + ?Sized,
        S: std::hash::BuildHasher,
    ensures
        obeys_key_model::<K>() && builds_valid_hashers::<S>() ==> match r {
            Some(v) => contains_borrowed_key(old(m)@, k) && maps_borrowed_key_to_value(old(m)@, k, *v)
                && (forall|key: K| #[trigger] old(m)@.contains_key(key) && maps_borrowed_key_to_value(old(m)@, k, old(m)@[key])
                        ==> final(m)@ == old(m)@.insert(key, *final(v))),
            None => !contains_borrowed_key(old(m)@, k) && final(m)@ == old(m)@,
        };

// `m.entry(k).or_insert(v)` / `.or_insert_with(|| v)` / `.or_default()` (rule R8e): trusted (A-STD). The closure form is
// rewritten to the eager form, which assumes the closure body is pure (it is a struct / literal expression at every site).
#[verifier::external_body]
pub fn hashmap_entry_or_insert<'a, K: std::cmp::Eq + std::hash::Hash, V>(m: &'a mut HashMap<K, V>, k: K, v: V) -> (r: &'a mut V)
    ensures
        *r == (if old(m)@.contains_key(k) { old(m)@[k] } else { v }),
        final(m)@ == old(m)@.insert(k, *final(r)),
{
    m.entry(k).or_insert(v)
}

// `m.get(k)` with k: &str on a HashMap<String, V> (Borrow<str> lookup). Trusted (A-STD).
#[verifier::external_body]
pub fn hashmap_get_str<'a, V>(m: &'a HashMap<String, V>, k: &str) -> (r: Option<&'a V>)
    ensures match r {
        Some(v) => m@.contains_key(string_of(k@)) && *v == m@[string_of(k@)],
        None => !m@.contains_key(string_of(k@)) }
{
    m.get(k)
}

// `m.get(k)` where the value's atomics are then modified through the shared reference (R4): modelled as get_mut.
#[verifier::external_body]
pub fn hashmap_get_mut_str<'a, V>(m: &'a mut HashMap<String, V>, k: &str) -> (r: Option<&'a mut V>)
    ensures match r {
        Some(v) => old(m)@.contains_key(string_of(k@)) && *v == old(m)@[string_of(k@)] && final(m)@ == old(m)@.insert(string_of(k@), *final(v)),
        None => !old(m)@.contains_key(string_of(k@)) && final(m)@ == old(m)@ }
{
    m.get_mut(k)
}
#[verifier::external_body]
pub fn hashmap_get_mut_usize<'a, V>(m: &'a mut HashMap<usize, V>, k: &usize) -> (r: Option<&'a mut V>)
    ensures match r {
        Some(v) => old(m)@.contains_key(*k) && *v == old(m)@[*k] && final(m)@ == old(m)@.insert(*k, *final(v)),
        None => !old(m)@.contains_key(*k) && final(m)@ == old(m)@ }
{
    m.get_mut(k)
}
