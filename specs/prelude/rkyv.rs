// rkyv stand-ins (R5). Trusted.
// rkyv::AlignedVec
pub struct AlignedVec { pub v: Vec<u8> }
impl View for AlignedVec { type V = Seq<u8>; open spec fn view(&self) -> Seq<u8> { self.v@ } }
impl AlignedVec {
    #[verifier::external_body]
    pub fn with_capacity(n: usize) -> (r: Self) ensures r@ == Seq::<u8>::empty() { AlignedVec { v: Vec::with_capacity(n) } }
    #[verifier::external_body]
    pub fn extend_from_slice(&mut self, s: &[u8]) ensures final(self)@ == old(self)@ + s@ { self.v.extend_from_slice(s) }
}

// rkyv::archived_root::<Metadata> -- `unsafe fn`: its documented safety precondition is that the bytes are a valid archive
pub uninterp spec fn valid_archive(b: Seq<u8>) -> bool;
pub uninterp spec fn spec_decode(b: Seq<u8>) -> Metadata;
pub struct ArchivedMetadata { pub bytes: Ghost<Seq<u8>> }

#[verifier::external_body]
pub unsafe fn rkyv_archived_root_metadata(a: &AlignedVec) -> (r: ArchivedMetadata)
    requires valid_archive(a@)
    ensures r.bytes@ == a@
{ unimplemented!() }

impl ArchivedMetadata {
    // archived.deserialize(&mut rkyv::Infallible)
    #[verifier::external_body]
    pub fn deserialize_infallible(&self) -> (r: Result<Metadata, ()>)
        ensures r == Ok::<Metadata, ()>(spec_decode(self.bytes@))
    { unimplemented!() }
}

impl AlignedVec {
    // `&aligned[..]`
    pub fn as_slice(&self) -> (r: &[u8]) ensures r@ == self@ { self.v.as_slice() }
}
// rkyv::check_archived_root::<Metadata>(bytes): the validating entry point (bytecheck). `valid_archive` is "passes validation";
// A-RKYV: validation is sound (every later access through the returned reference stays inside `bytes`) and
// to_bytes(m) always validates (round trip, see rkyv_write.rs).
#[verifier::external_body]
pub fn rkyv_check_archived_root_metadata(a: &[u8]) -> (r: Result<ArchivedMetadata, ()>)
    ensures (r is Ok) == valid_archive(a@), r matches Ok(x) ==> x.bytes@ == a@
{ unimplemented!() }
