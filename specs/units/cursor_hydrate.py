# C11, C06: startup_chore - hydration of one topic's persisted read cursor into the recovered chain (walrus.rs, the body of
# `if let Some(pos) = idx_guard.get(col)`).  The cursor comes from a file on disk, so every value of it must be handled:
# all chain indexing stays in bounds (Verus proves each Vec index), and the hydrated cursor is the persisted one clamped
# into the recovered chain.
from specs.units._core import *
from specs.units.batch_read_parse import BLOCK_MIRROR, CONSTS
from specs.units.core_persist import COLINFO_MIRROR

W = RT + "walrus.rs"
FN = "impl Walrus / fn startup_chore"

RULES = [
    dict(rule="R7", kind="re", pat=r"BlockStateTracker::set_checkpointed_true\(", repl="g.set_checkpointed_true(", why="tracker call -> ghost log of checkpointed ids (the tracker itself: unit core_trackers)"),
    dict(rule="R5", kind="lit", old="pos.cur_block_offset.min(used)", new="(if pos.cur_block_offset <= used { pos.cur_block_offset } else { used })", why="u64::min -> conditional"),
]

UNIT = dict(
    name="cursor_hydrate",
    props=["C11", "C06", "C12"],
    implicit_props=["C11", "C06"],
    prelude=["core_types.rs", "str_ext.rs", "engine.rs"],
    assumptions=[
        "R14 region: the body for one topic that has a persisted cursor; the iteration over the reader map (std HashMap iterator), the two RwLock acquisitions around it and the `continue` on a poisoned lock are not in the unit",
        "BlockStateTracker::set_checkpointed_true is a ghost log here (its effect on the tables: unit core_trackers)",
    ],
    items=[
        CONSTS, BLOCK_MIRROR, COLINFO_MIRROR,
        dict(kind="prelude", file="engine_read.rs"),
        dict(kind="model", file="cursor_hydrate_model.rs"),
        dict(kind="region", file=W, within=FN, start="let mut ib = pos.cur_block_idx as usize;",
             end="\n                    }\n                }\n            }\n        }\n\n        // enqueue deletion checks",
             sig="fn hydrate_cursor(info: &mut ColReaderInfo, pos: &BlockPos, g: &mut CkptH)",
             rules=RULES,
             loops={0: dict(kind="for", n_loops=1, expect=r"set_checkpointed_true\(info\.chain\[i\]",
                            invariant=[("", "ib <= info.chain.len()"), ("", "info.chain@ == old(info).chain@"),
                                       ("", "info.cur_block_idx == ib && g.ckpt@.len() >= old(g).ckpt@.len()"),
                                       ("C12,C06:hydration_marks_only_blocks_the_cursor_has_completely_behind_it", "forall|k: int| old(g).ckpt@.len() <= k < g.ckpt@.len() ==> behind_cursor(info.chain@, ib as int, info.cur_block_offset, #[trigger] g.ckpt@[k])")])},
             requires=[],
             hints=[dict(loop_body_end=0, text="                            proof { assert(behind_cursor(info.chain@, ib as int, info.cur_block_offset, info.chain@[i as int].id)); }"),
                    dict(after="g.set_checkpointed_true(info.chain[ib].id as usize);", text="                            proof { assert(behind_cursor(info.chain@, ib as int, info.cur_block_offset, info.chain@[ib as int].id)); }")],
             ensures=[
                 ("C11,C06:a_persisted_cursor_is_clamped_into_the_recovered_chain",
                  "final(info).cur_block_idx <= final(info).chain.len() && final(info).cur_block_idx == (if (pos.cur_block_idx as usize) > old(info).chain.len() { old(info).chain.len() } else { pos.cur_block_idx as usize })"),
                 ("C11,C06:the_hydrated_offset_stays_inside_the_block_it_points_into",
                  "final(info).cur_block_idx < final(info).chain.len() ==> final(info).cur_block_offset <= final(info).chain@[final(info).cur_block_idx as int].used && (pos.cur_block_offset <= final(info).chain@[final(info).cur_block_idx as int].used ==> final(info).cur_block_offset == pos.cur_block_offset)"),
                 ("C06:hydration_changes_only_the_sealed_chain_cursor",
                  "final(info).chain@ == old(info).chain@ && final(info).tail_block_id == old(info).tail_block_id && final(info).tail_offset == old(info).tail_offset"),
                 ("C12,C06:hydration_marks_only_blocks_the_cursor_has_completely_behind_it",
                  "final(g).ckpt@.len() >= old(g).ckpt@.len() && forall|k: int| old(g).ckpt@.len() <= k < final(g).ckpt@.len() ==> behind_cursor(final(info).chain@, final(info).cur_block_idx as int, final(info).cur_block_offset, #[trigger] final(g).ckpt@[k])"),
             ]),
    ],
)
