# C21: peer address book reload (octopii/src/openraft/node.rs load_peer_addr_records).
from specs.units._core import *
ND = "octopii/src/openraft/node.rs"
UNIT = dict(
    name="c21_peers",
    props=["C21"],
    features=["allocator_api"],
    uses=["std::collections::HashMap", "vstd::std_specs::hash::*"],
    prelude=["core_types.rs", "str_ext.rs", "hashmap_ext.rs"],
    assumptions=[
        "R13: async removed; WriteAheadLog::read_all as proved in unit c21_read_all; bincode decode of a record is an arbitrary Result",
        "SocketAddr is an opaque Copy value; the static Config::peers re-assertion at start-up is outside the unit",
    ],
    items=[
        dict(kind="model", file="c21_peers_model.rs"),
        dict(kind="fn", file=ND, path="fn load_peer_addr_records",
             sig_rules=[dict(pat=r"async fn", repl="fn", min=0), dict(pat=r"&Arc<WriteAheadLog>", repl="&WalH")],
             rules=[dict(rule="R13", kind="re", pat=r"\.await", repl="", why="await removed"),
                    dict(rule="R8", kind="lit", old="for raw in entries {", new="let mut entries = entries; let ghost raws = entries@; let mut __n: usize = 0; while __n < entries.len() { let raw = bytes_take(&mut entries, __n); __n = __n + 1;", why="for x in vec (by value) -> indexed while loop"),
                    dict(rule="R5", kind="lit", old="bincode::deserialize::<PeerAddrRecord>(&raw)", new="decode_peer(&raw)", why="bincode::deserialize -> arbitrary-Result stub"),
             ] + entry_rules(),
             requires=[("", "obeys_key_model::<u64>()")],
             ensures=[("C21:the_reloaded_address_book_holds_for_every_peer_the_latest_recorded_address", "ret@ == book(wal_records(*wal), wal_records(*wal).len() as int) || (wal.read_all_failed() && ret@ == Map::<u64, SocketAddr>::empty())")],
             loops={0: dict(kind="while", invariant=[("", "obeys_key_model::<u64>()"), ("", "__n <= entries@.len() && entries@.len() == raws.len() && raws == wal_records(*wal)"),
                                                      ("", "forall|j: int| __n <= j < raws.len() ==> (#[trigger] entries@[j]).v@ == raws[j].v@"),
                                                      ("C21:the_reloaded_address_book_holds_for_every_peer_the_latest_recorded_address", "map@ == book(raws, __n as int)")],
                            decreases="raws.len() - __n")}),
    ],
)
