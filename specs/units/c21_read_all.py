# C21: WriteAheadLog::read_all (octopii/src/wal/mod.rs), the recovery reader of the Raft log store / peer address book.
from specs.units._core import *
OW = "octopii/src/wal/mod.rs"
BLK = "src/wal/block.rs"
UNIT = dict(
    name="c21_read_all",
    props=["C21"],
    prelude=[],
    assumptions=[
        "R13/R14: the closure handed to tokio::task::block_in_place is the region; async/await and Arc clones are outside it",
        "Walrus::batch_read_for_topic is the abstract StrictlyAtOnce reader of specs/model/c21_model.rs (what C01/C02/C03/C09 establish for the main engine; octopii links its own vendored copy of the engine, which is NOT under contract)",
        "WalLogStore::recover_from_wal (bincode replay of the records) and the peer address book reader are not extracted (octopii cannot be built offline: tokio, openraft, bincode)",
    ],
    items=[
        dict(kind="struct", file=BLK, struct="Entry"),
        dict(kind="model", file="c21_model.rs"),
        dict(kind="region", file=OW, within="impl WriteAheadLog / fn read_all", start="let mut all_entries = Vec::new();", end="            Ok(all_entries)",
             sig="fn read_all_body(walrus: &mut WalrusH, topic: String) -> (ret: WResult<Vec<Bytes>>)", post="Ok(all_entries)",
             rules=[dict(rule="R8", kind="lit", old="for entry in batch {", new="let __n = batch.len(); let mut batch = batch; let mut __k: usize = 0; let ghost b0 = batch@; let ghost a0 = all_entries@; while __k < __n { let entry = entry_take(&mut batch, __k); __k = __k + 1;", why="for x in vec (by value) -> indexed loop taking each element"),
                    dict(rule="R16", kind="lit", old="walrus.batch_read_for_topic(&topic,", new="walrus.batch_read_for_topic(&topic,", why="(unchanged) Arc<Walrus> -> &mut stand-in via the signature")],
             requires=[("", "old(walrus).cursor@ <= old(walrus).log@.len()")],
             ensures=[
                 ("C21:recovery_reads_every_record_behind_the_cursor_in_order", "ret matches Ok(v) ==> old(walrus).cursor@ <= final(walrus).cursor@ <= old(walrus).log@.len() && bytes_view(v@) == old(walrus).log@.subrange(old(walrus).cursor@ as int, final(walrus).cursor@ as int)"),
                 ("C21:recovery_leaves_the_records_for_the_next_restart", "final(walrus).persisted == old(walrus).persisted"),
                 ("C21:recovery_never_changes_the_log", "final(walrus).log == old(walrus).log"),
             ],
             hints=[dict(loop_body_end=1, text="                            proof { assert(all_entries@.len() == a0.len() + __k); }"),
                    dict(after_loop=1, text="                        proof { lemma_extend(a0, all_entries@, b0, walrus.log@, old(walrus).cursor@ as int, (walrus.cursor@ - b0.len()) as int); }")],
             loops={
                 0: dict(kind="loop", invariant=[("", "walrus.log == old(walrus).log"), ("", "old(walrus).cursor@ <= walrus.cursor@ <= walrus.log@.len()"),
                                                  ("C21:recovery_reads_every_record_behind_the_cursor_in_order", "bytes_view(all_entries@) == walrus.log@.subrange(old(walrus).cursor@ as int, walrus.cursor@ as int)")],
                         invariant_except_break=[("", "consecutive_empty_reads < 2")], decreases="walrus.log@.len() - walrus.cursor@, 2 - consecutive_empty_reads"),
                 1: dict(kind="while", invariant=[("", "__k <= __n && __n == b0.len() && batch@.len() == __n"), ("", "all_entries@.len() == a0.len() + __k"),
                                                   ("", "forall|i: int| 0 <= i < a0.len() ==> all_entries@[i] == a0[i]"),
                                                   ("", "forall|j: int| 0 <= j < __k ==> (#[trigger] all_entries@[a0.len() + j]).v@ == b0[j].data@"),
                                                   ("", "forall|j: int| __k <= j < __n ==> (#[trigger] batch@[j]).data@ == b0[j].data@")],
                         decreases="__n - __k"),
             }),
    ],
)
