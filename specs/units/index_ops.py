# C09, C10, C11: the persisted read-cursor table (index.rs): set / get / remove and the loader of the file.
from specs.units._core import *
from specs.units.c10_persist import RULES as PERSIST_RULES
IDX = RT + "index.rs"

TMP = "seq!['.', 't', 'm', 'p']"
PERSIST_REQ = [
    ("", "!old(fs).vol_dir@.contains_key(old(self).path@ + %s) || old(fs).vol_dir@[old(self).path@ + %s] != (if old(fs).vol_dir@.contains_key(old(self).path@) { old(fs).vol_dir@[old(self).path@] } else { -1 })" % (TMP, TMP)),
    ("", "forall|p: Seq<char>| #[trigger] old(fs).dur_dir@.contains_key(p) && p != old(self).path@ + %s && old(fs).vol_dir@.contains_key(old(self).path@ + %s) ==> old(fs).dur_dir@[p] != old(fs).vol_dir@[old(self).path@ + %s]" % (TMP, TMP, TMP)),
]
SIG_MUT = [dict(pat=r"\(&mut self,", repl="(&mut self, fs: &mut Fs,")] + IOERR_SIG
CALL = [dict(rule="R6", kind="re", pat=r"self\.persist\(\)", repl="self.persist(fs)", why="ghost file system threaded")]

UNIT = dict(
    name="index_ops",
    props=["C09", "C10", "C11", "C06"],
    implicit_props=["C09", "C10", "C11"],  # the properties every obligation of the unit counts for; the others only through labelled clauses
    features=["allocator_api"],
    uses=["std::collections::HashMap", "vstd::std_specs::hash::*"],
    prelude=["core_types.rs", "str_ext.rs", "hashmap_ext.rs"],
    assumptions=[
        "A-FS (power-loss model, as in unit c10_persist); WalIndex::persist's contract is assumed here = what unit c10_persist proves for the same text",
        "A-RKYV: check_archived_root is sound, to_bytes output validates and decodes back to the map (axiom_index_round_trip)",
        "the iterator chain around the loader closure (`path.exists().then(|| fs::read(..).ok()).flatten().and_then(<closure>).unwrap_or_default()`) is std and not in the unit: a missing / unreadable / rejected file yields the empty table",
        "obeys_key_model::<String>() (vstd's HashMap<String,_> axioms)",
    ],
    items=[
        dict(kind="struct", file=IDX, struct="BlockPos", attrs=[]),
        dict(kind="model", file="fs_model.rs"),
        dict(kind="model", file="index_load_model.rs"),
        dict(kind="mirror", file="src/wal/paths.rs", struct="WalPathManager", fields=[("root", "PathBuf", "PathBuf")]),
        dict(kind="mirror", file=IDX, struct="WalIndex", fields=[("store", "HashMap<String, BlockPos>", "HashMap<String, BlockPos>"), ("path", "String", "String")]),
        dict(kind="stub", impl="WalIndex", sig="fn persist(&self, fs: &mut Fs) -> (ret: IoResult<()>)", proved_in="unit c10_persist",
             requires=[(l, c.replace("old(self)", "self")) for l, c in PERSIST_REQ],
             ensures=[("", "ret is Ok ==> after_power_loss(*final(fs), self.path@) == Some(index_bytes(self.store@))"),
                      ("", "ret is Err ==> after_power_loss(*final(fs), self.path@) == after_power_loss(*old(fs), self.path@) || after_power_loss(*final(fs), self.path@) == Some(index_bytes(self.store@))")]),
        dict(kind="fn", file=IDX, path="impl WalIndex / fn set", sig_rules=SIG_MUT, rules=CALL,
             requires=[("", "obeys_key_model::<String>()")] + PERSIST_REQ,
             ensures=[
                 ("C09:set_records_exactly_this_cursor_for_this_topic_and_keeps_all_others", "final(self).store@ == old(self).store@.insert(key, BlockPos { cur_block_idx: idx, cur_block_offset: offset }) && final(self).path == old(self).path"),
                 ("C09,C10:once_set_returned_the_cursor_file_holds_the_whole_table_even_after_power_loss", "ret is Ok ==> after_power_loss(*final(fs), final(self).path@) == Some(index_bytes(final(self).store@))"),
                 ("C10:a_failed_set_leaves_the_old_or_the_new_cursor_file", "ret is Err ==> after_power_loss(*final(fs), final(self).path@) == after_power_loss(*old(fs), final(self).path@) || after_power_loss(*final(fs), final(self).path@) == Some(index_bytes(final(self).store@))"),
             ]),
        dict(kind="fn", file=IDX, path="impl WalIndex / fn get",
             rules=[dict(rule="R8", kind="lit", old="self.store.get(key)", new="hashmap_get_str(&self.store, key)", why="HashMap<String,_>::get(&str) (Borrow<str>) -> prelude stub keyed by the string's characters")],
             requires=[("", "obeys_key_model::<String>()")],
             ensures=[("C09:get_returns_the_cursor_recorded_for_this_topic", "match ret { Some(p) => self.store@.contains_key(string_of(key@)) && *p == self.store@[string_of(key@)], None => !self.store@.contains_key(string_of(key@)) }")]),
        dict(kind="closure", file=IDX, within="impl WalIndex / fn new_in", index=0,
             sig="fn decode_index(bytes: Vec<u8>) -> (ret: Option<HashMap<String, BlockPos>>)",
             rules=[
                 dict(rule="R5", kind="lit", old="rkyv::AlignedVec::with_capacity(", new="AlignedVecH::with_capacity(", why="rkyv::AlignedVec -> ghost byte sequence"),
                 dict(rule="R5", kind="re", dotall=True, pat=r"rkyv::check_archived_root::<HashMap<String, BlockPos>>\(&aligned\[\.\.\]\)\.ok\(\)\?",
                      repl="(match rkyv_check_archived_root_index(&aligned) { Ok(a) => a, Err(_) => return None })", why="validating entry point -> stub; `.ok()?` -> explicit match"),
                 dict(rule="R5", kind="lit", old="archived.deserialize(&mut rkyv::Infallible).ok()", new="archived.deserialize_infallible()", why="deserialize -> stub that REQUIRES a validated archive"),
             ],
             ensures=[
                 ("C11:a_cursor_file_is_decoded_only_after_it_validated", "ret is Some ==> bytes@.len() > 0 && valid_index_archive(bytes@)"),
                 ("C09,C06:a_loaded_table_is_the_decoding_of_the_file", "ret matches Some(m) ==> m@ == index_decode(bytes@)"),
             ]),
    ],
)
