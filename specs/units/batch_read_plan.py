# batch_read_for_topic, region 2 "Build read plan" (walrus_read.rs ~675-855): sealed-chain ranges, header peek, tail range.
from specs.units._core import *
from specs.units.batch_read_parse import BLOCK_MIRROR, CONSTS, RKYV_RULES, MISC_RULES

WR = RT + "walrus_read.rs"
BLK = "src/wal/block.rs"

PLAN_RULES = [
    dict(rule="R6", kind="re", dotall=True, pat=r"(\w+)\s*\.mmap\s*\.read\(", repl=r"mmap_read(&\1.mmap, ", why="SharedMmap::read -> disk model stub"),
    dict(rule="R7", kind="lit", old="BlockStateTracker::set_checkpointed_true(", new="globals.set_checkpointed_true(", why="global tracker -> explicit Globals"),
    dict(rule="R16", kind="lit", old="writer_snapshot.clone()", new="writer_snapshot", why="Option<(Block,u64)> used once: clone -> move"),
    dict(rule="R5", kind="re", pat=r'\.expect\("infallible metadata deserialize"\)', repl=".unwrap()", min=0, why="expect(msg) -> unwrap()"),
] + RKYV_RULES + MISC_RULES

OUTS = "(Vec<ReadPlan>, usize, usize)"

UNIT = dict(
    name="batch_read_plan",
    props=["C03", "C01", "C02", "C12", "C11", "C16"],
    implicit_props=["C03", "C01", "C02", "C12"],  # the properties every obligation of the unit counts for; the others only through labelled clauses
    prelude=["core_types.rs", "engine.rs"],
    assumptions=[
        "context W (well-formed bytes), A-IO (positional reads inside the file are complete), A-ARITH",
        "R14 region cut: live-ins are the declared parameters (chain snapshot, cursor, tail fields, writer snapshot, budget)",
    ],
    items=[
        CONSTS, BLOCK_MIRROR,
        dict(kind="struct", file=BLK, struct="Entry"),
        dict(kind="struct", file=BLK, struct="Metadata"),
        dict(kind="struct", file=WR, struct="ReadPlan"),
        dict(kind="prelude", file="rkyv.rs"),
        DECODE_ITEM,
        dict(kind="model", file="parse_model.rs"),
        dict(kind="model", file="bytes_model.rs"),
        dict(kind="model", file="plan_model.rs"),
        dict(kind="region", file=WR, within="impl Walrus / fn batch_read_for_topic",
             start="// 2) Build read plan up to byte and entry limits", end="if plan.is_empty() {",
             sig="fn batch_read_plan(chain: &Vec<Block>, cur_idx_in: usize, cur_off_in: u64, tail_block_id: u64, tail_offset: u64, info_guard: &Option<ColGuard>, initial_trim_in: usize, first_end_hint_in: u64, max_bytes: usize, start_offset: Option<u64>, checkpoint: bool, writer_snapshot: Option<(Block, u64)>, globals: &mut Globals) -> (ret: %s)" % OUTS,
             pre="let mut cur_idx = cur_idx_in; let mut cur_off = cur_off_in; let mut initial_trim = initial_trim_in; let mut first_end_hint = first_end_hint_in;\n",
             post="(plan, initial_trim, cur_idx)",
             rules=PLAN_RULES,
             requires=[
                 ("", "bytes_well_formed()"),
                 ("", "forall|i: int| 0 <= i < chain.len() ==> wf_block(#[trigger] chain[i])"),
                 ("", "cur_idx_in <= chain.len()"),
                 ("", "writer_snapshot matches Some(w) ==> wf_block(w.0) && w.1 <= w.0.limit"),
                 ("", "tail_offset <= 0x4000_0000_0000"),
                 ("", "packed_chain(chain@, cur_idx_in as int, cur_off_in)"),
             ],
             ensures=[
                 ("C03,C01:plan_first_range_covers_first_unconsumed_entry", "(start_offset is None && sealed_unconsumed(chain@, cur_idx_in as int, cur_off_in)) ==> ret.0.len() > 0 && first_covers(ret.0[0])"),
                 ("C03:plan_nonempty_when_sealed_data_unconsumed", "sealed_unconsumed(chain@, cur_idx_in as int, cur_off_in) ==> ret.0.len() > 0"),
                 ("C01:plan_ranges_ordered_and_inside_blocks", "plan_ordered(ret.0@, chain@, cur_idx_in as int)"),
                 ("C01:plan_leaves_no_gap", "no_gap(ret.0@, chain@, cur_idx_in as int, cur_off_in, ret.2 as int)"),
                 ("C01:plan_tail_only_after_whole_chain", "(ret.0.len() > 0 && ret.0@.last().is_tail) ==> ret.2 >= chain.len()"),
                 ("C03:plan_ranges_at_most_one_gib", "forall|k: int| 0 <= k < ret.0.len() ==> (#[trigger] ret.0[k]).start < ret.0[k].end && ret.0[k].end - ret.0[k].start <= 0x4000_0000 && ret.0[k].end <= 0x4000_0000"),
                 ("C02,C12:plan_marks_only_when_stateful", "info_guard is None ==> *final(globals) == *old(globals)"),
                 ("C01:a_stateful_read_never_trims_its_first_entry", "start_offset is None ==> ret.1 == initial_trim_in"),
                 ("C16,C11:every_planned_range_lies_in_a_wellformed_block", "forall|k: int| 0 <= k < ret.0.len() ==> wf_block((#[trigger] ret.0[k]).blk)"),
                 ("C01:a_stateful_tail_range_resumes_at_the_tail_cursor_only_if_that_cursor_belongs_to_this_very_block",
                  "(start_offset is None && ret.0.len() > 0 && ret.0@.last().is_tail) ==> writer_snapshot is Some && ret.0@.last().start == (if tail_block_id == writer_snapshot->Some_0.0.id { tail_offset } else { 0 }) && ret.0@.last().end <= writer_snapshot->Some_0.1 && ret.0@.last().blk == writer_snapshot->Some_0.0"),
                 ("C01:unread_tail_entries_are_planned_once_the_sealed_chain_is_exhausted",
                  "(start_offset is None && ret.2 >= chain.len() && writer_snapshot is Some && (if tail_block_id == writer_snapshot->Some_0.0.id { tail_offset } else { 0 }) < writer_snapshot->Some_0.1) ==> (ret.0.len() > 0 && ret.0@.last().is_tail)"),
                 ("C03:at_most_one_range_per_sealed_block_plus_the_tail", "ret.0.len() <= chain.len() - cur_idx_in + 1"),
             ],
             hints=[
                 dict(after="aligned_peek_meta.extend_from_slice(&meta_buf[2..2 + meta_len]);",
                      text="                        proof { assert(aligned_peek_meta@ =~= disk(block.mmap.file).subrange(block.offset + cur_off + 2, block.offset + cur_off + 2 + meta_len)); }"),
                 dict(before="            if end > cur_off {", text="            let ghost plan0 = plan@;"),
                 dict(before="                if tail_start < written {", text="                let ghost plan1 = plan@;"),
                 dict(after="                        chain_idx: None,\n                    });", text="                    proof { lemma_no_gap_push_any(plan1, chain@, cur_idx_in as int, cur_off_in, cur_idx as int, plan@.last()); }"),
                 dict(after="                    chain_idx: Some(cur_idx),\n                });",
                      text="                proof { lemma_plan_push(plan0, chain@, cur_idx_in as int, cur_idx, plan@.last()); lemma_no_gap_push(plan0, chain@, cur_idx_in as int, cur_off_in, cur_idx as int, plan@.last()); }"),
                 dict(loop_body_end=0,
                      text="            proof { if plan@ == plan0 && cur_idx >= 1 { lemma_plan_upto_mono(plan0, chain@, cur_idx_in as int, cur_idx - 1, cur_idx as int); lemma_no_gap_skip_if(plan0, chain@, cur_idx_in as int, cur_off_in, cur_idx - 1); } }"),
                 dict(before="                continue;\n            }\n\n            let mut want",
                      text="                proof { lemma_plan_upto_mono(plan@, chain@, cur_idx_in as int, cur_idx - 1, cur_idx as int); lemma_no_gap_skip_if(plan@, chain@, cur_idx_in as int, cur_off_in, cur_idx - 1); }"),
             ],
             loops={
                 0: dict(kind="while", invariant=[
                     ("", "bytes_well_formed()"),
                     ("", "forall|i: int| 0 <= i < chain.len() ==> wf_block(#[trigger] chain[i])"),
                     ("", "cur_idx <= chain.len()"), ("", "cur_idx_in <= cur_idx"),
                     ("", "chain_len_at_plan == chain.len()"),
                     ("", "planned_bytes <= cur_idx * 0x4000_0000"),
                     ("", "plan.len() <= cur_idx - cur_idx_in"),
                     ("C01:plan_ranges_ordered_and_inside_blocks", "plan_ordered_upto(plan@, chain@, cur_idx_in as int, cur_idx as int)"),
                     ("C03:plan_ranges_at_most_one_gib", "forall|k: int| 0 <= k < plan.len() ==> (#[trigger] plan[k]).start < plan[k].end && plan[k].end - plan[k].start <= 0x4000_0000 && plan[k].end <= 0x4000_0000"),
                     ("C03:plan_nonempty_when_sealed_data_unconsumed", "plan.len() == 0 ==> (planned_bytes == 0 && (sealed_unconsumed(chain@, cur_idx_in as int, cur_off_in) ==> sealed_unconsumed(chain@, cur_idx as int, cur_off)))"),
                     ("C02,C12:plan_marks_only_when_stateful", "info_guard is None ==> *globals == *old(globals)"),
                     ("C01:plan_leaves_no_gap", "no_gap(plan@, chain@, cur_idx_in as int, cur_off_in, cur_idx as int)"),
                     ("C01:plan_cursor_offset_only_applies_to_first_block", "(cur_idx == cur_idx_in ==> cur_off == cur_off_in) && (cur_idx > cur_idx_in ==> cur_off == 0)"),
                     ("", "plan.len() == 0 ==> packed_chain(chain@, cur_idx as int, cur_off)"),
                     ("", "plan.len() > 0 ==> planned_bytes > 0 && cur_off == 0"),
                     ("C03,C01:plan_first_range_covers_first_unconsumed_entry", "(start_offset is None && plan.len() > 0) ==> first_covers(plan[0])"),
                     ("C16,C11:every_planned_range_lies_in_a_wellformed_block", "forall|k: int| 0 <= k < plan.len() ==> wf_block((#[trigger] plan[k]).blk)"),
                 ], decreases="chain.len() - cur_idx"),
                 1: dict(kind="while", invariant=[
                     ("", "bytes_well_formed()"), ("", "wf_block(active_block)"), ("", "written <= active_block.limit"),
                     ("", "scan_pos <= written + 0x100_0000_0100"),
                 ], decreases="written + 0x100_0000_0100 - scan_pos"),
             }),
    ],
)
