# batch_read_for_topic: composition of its three regions over their own contracts (C03 progress, C01).
from specs.units._core import *
from specs.units import batch_read_plan as P, batch_read_io as I, batch_read_parse as R

def region_of(u):
    return [it for it in u.UNIT["items"] if it.get("kind") == "region"][0]

def stub_of(u, proved_in):
    r = region_of(u)
    return dict(kind="stub", sig=r["sig"].replace("fn ", "pub fn ", 1), requires=r.get("requires"), ensures=r.get("ensures"), proved_in=proved_in)

def key(it):
    return (it.get("kind"), it.get("file"), it.get("struct"), it.get("path"), tuple(it.get("patterns", [])))

ITEMS, SEEN = [], set()
for u in (P, R, I):
    for it in u.UNIT["items"]:
        if it.get("kind") in ("region", "fn"):
            continue
        k = key(it)
        if k in SEEN:
            continue
        SEEN.add(k)
        ITEMS.append(it)

UNIT = dict(
    name="batch_read_spine",
    props=["C03", "C01"],
    prelude=["core_types.rs", "engine.rs"],
    assumptions=[
        "the three stubs are the contracts of the regions proved in units batch_read_plan, batch_read_io and batch_read_parse (same Python objects, no copy); the composition mirrors the statement order of batch_read_for_topic (plan; `if plan.is_empty() return`; read; parse) for a stateful read on the io_uring path",
        "fewer than 1000 sealed blocks per topic chain (the parse region assumes plan.len() < 1024); context W",
    ],
    items=ITEMS + [
        dict(kind="model", file="spine_model.rs"),
        stub_of(P, "unit batch_read_plan"), stub_of(I, "unit batch_read_io"), stub_of(R, "unit batch_read_parse"),
        dict(kind="model", file="batch_read_theorem.rs"),
    ],
)
