# C06: names of new WAL files (config.rs): strictly increasing within a process and above a given floor (the newest existing file).
from specs.units._core import *
CFG = "src/wal/config.rs"
RULES = [
    dict(rule="R5", kind="re", dotall=True, pat=r"SystemTime::now\(\)\s*\.duration_since\(SystemTime::UNIX_EPOCH\)\s*\.unwrap_or_else\(\|_\| std::time::Duration::from_secs\(0\)\)\s*\.as_millis\(\)", repl="wall_clock_millis()", min=0,
         why="SystemTime::now()...as_millis() -> arbitrary-valued stub (any wall-clock behaviour)"),
    dict(rule="R5", kind="lit", old="system_ms.try_into().unwrap_or(u64::MAX)", new="u128_to_u64_or_max(system_ms)", min=0, why="u128 -> u64 with saturation -> stub"),
    dict(rule="R7", kind="lit", old="LAST_MILLIS.load(Ordering::Relaxed)", new="*last", min=0, why="process-wide atomic -> explicit &mut u64 (A-SEQ)"),
    dict(rule="R7", kind="re", dotall=True, pat=r"LAST_MILLIS\.compare_exchange\(observed, candidate, Ordering::AcqRel, Ordering::Acquire\)", repl="cas_u64(last, observed, candidate)", min=0, why="compare_exchange -> A-SEQ stub"),
    dict(rule="R7", kind="lit", old="LAST_MILLIS.fetch_max(floor, Ordering::AcqRel);", new="if *last < floor { *last = floor; }", min=0, why="fetch_max -> conditional assignment (A-SEQ)"),
    dict(rule="R9", kind="lit", old="candidate.to_string()", new="u64_to_string(candidate)", min=0, why="u64::to_string -> stub naming the value"),
    dict(rule="R7", kind="lit", old="now_millis_str()", new="now_millis_str(last)", min=0, why="explicit global"),
]
UNIT = dict(
    name="c06_names",
    props=["C06", "C13"],
    prelude=[],
    assumptions=["A-SEQ: one thread creates files at a time (the allocator holds its lock); LAST_MILLIS as an explicit cell; the wall clock is an arbitrary value per call",
                 "names below u64::MAX (saturating_add would repeat u64::MAX itself)"],
    items=[
        dict(kind="model", file="names_model.rs"),
        dict(kind="fn", file=CFG, path="fn now_millis_str", sig_rules=[dict(pat=r"\(\)", repl="(last: &mut u64)")], rules=RULES, attrs=["#[verifier::exec_allows_no_decreases_clause]"],
             requires=[("", "*old(last) < u64::MAX")],
             loops={0: dict(kind="loop", invariant=[("", "observed == *last && *last == *old(last) && *last < u64::MAX")])},
             ensures=[("C06,C13:a_new_file_name_is_greater_than_every_name_issued_before_in_this_process", "exists|v: u64| ret@ == name_of(v) && v > *old(last) && *final(last) == v")]),
        dict(kind="fn", file=CFG, path="fn millis_str_after", sig_rules=[dict(pat=r"\(floor: u64\)", repl="(last: &mut u64, floor: u64)")], rules=RULES,
             requires=[("", "*old(last) < u64::MAX && floor < u64::MAX")],
             ensures=[("C06:a_new_file_name_is_greater_than_the_newest_existing_file_whatever_the_clock_says", "exists|v: u64| ret@ == name_of(v) && v > floor && v > *old(last) && *final(last) == v")]),
    ],
)
