# C16: StorageImpl::{write,read,flush,len} and FdBackend::{write,read,flush,len} (storage.rs): both arms meet one byte-level contract.
from specs.units._core import *
ST = "src/wal/storage.rs"
RULES = [
    dict(rule="R11", kind="re", dotall=True, pat=r"unsafe \{\s*let ptr = mmap\.as_ptr\(\) as \*mut u8;\s*std::ptr::copy_nonoverlapping\(data\.as_ptr\(\), ptr\.add\(offset\), data\.len\(\)\);\s*\}",
         repl="mmap_copy_in(mmap, disk, offset, data);", min=0, why="unsafe raw copy into the mapping -> trusted stub; its precondition is the SAFETY condition (range inside the mapping)"),
    dict(rule="R11", kind="re", dotall=True, pat=r"let src = &mmap\[offset\.\.offset \+ dest\.len\(\)\];\s*dest\.copy_from_slice\(src\);", repl="mmap_copy_out(mmap, disk, offset, dest);", min=0,
         why="slice of the mapping + copy_from_slice -> stub; out-of-range panics, so the range is a precondition"),
    dict(rule="R6", kind="re", pat=r"fd\.write\(", repl="fd.write(disk, ", min=0, why="ghost disk threaded"),
    dict(rule="R6", kind="re", pat=r"fd\.read\(", repl="fd.read(disk, ", min=0, why="ghost disk threaded"),
    dict(rule="R6", kind="re", pat=r"fd\.flush\(\)", repl="fd.flush(disk)", min=0, why="ghost disk threaded"),
    dict(rule="R6", kind="re", pat=r"mmap\.flush\(\)", repl="mmap.flush(disk)", min=0, why="ghost disk threaded"),
    dict(rule="R6", kind="re", pat=r"self\.file\.write_at\(", repl="self.file.write_at(disk, ", min=0, why="ghost disk threaded"),
    dict(rule="R6", kind="re", pat=r"self\.file\.read_at\(", repl="self.file.read_at(disk, ", min=0, why="ghost disk threaded"),
    dict(rule="R6", kind="re", pat=r"self\.file\.sync_all\(\)", repl="self.file.sync_all(disk)", min=0, why="ghost disk threaded"),
    dict(rule="R1", kind="re", pat=r"use std::os::unix::fs::FileExt;", repl="", min=0, why="trait import dropped"),
] + IOERR_RULES
W_SIG = [dict(pat=r"&self,", repl="&self, disk: &mut Disk,", min=0), dict(pat=r"\(&self\)", repl="(&self, disk: &mut Disk)", min=0)] + IOERR_SIG
R_SIG = [dict(pat=r"&self,", repl="&self, disk: &Disk,", min=0)]
WRITE_ENS = lambda idexpr: [("C16:write_puts_exactly_these_bytes_at_this_offset_in_either_backend", "final(disk).bytes@ == old(disk).bytes@.insert(%s, write_at(old(disk).bytes@[%s], offset as int, data@))" % (idexpr, idexpr))]
READ_ENS = lambda idexpr: [("C16:read_returns_exactly_the_bytes_at_this_offset_in_either_backend", "final(dest)@ == disk.bytes@[%s].subrange(offset as int, offset + old(dest)@.len())" % idexpr)]
UNIT = dict(
    name="c16_storage",
    props=["C16"],
    prelude=["core_types.rs"],
    assumptions=[
        "A-IO: pwrite/pread inside the preallocated file transfer the whole buffer (FdBackend ignores their results); A-MMAP: the MAP_SHARED mapping's bytes are the file's bytes",
        "R11: the two unsafe/raw accesses to the mapping are trusted stubs whose preconditions are the in-range conditions; callers (Block::write/read, units block_rw / batch_write) prove them",
        "io_uring submission paths (batch write buffers, batch read) are not in this unit",
    ],
    items=[
        dict(kind="model", file="storage_model_pre.rs"),
        dict(kind="mirror", file=ST, struct="FdBackend", fields=[("file", "std::fs::File", "FileG"), ("len", "usize", "usize")]),
        dict(kind="lines", file=ST, patterns=[r"(?s)^pub\(crate\) enum StorageImpl \{\n    Mmap\(MmapMut\),\n    Fd\(FdBackend\),\n\}$"], rules=[]),
        dict(kind="model", file="storage_model.rs"),
        dict(kind="fn", file=ST, path="impl FdBackend / fn write", sig_rules=W_SIG, rules=RULES,
             requires=[("", "old(disk).bytes@.contains_key(self.file.id)"), ("", "offset + data@.len() <= old(disk).bytes@[self.file.id].len()")], ensures=WRITE_ENS("self.file.id")),
        dict(kind="fn", file=ST, path="impl FdBackend / fn read", sig_rules=R_SIG, rules=RULES,
             requires=[("", "disk.bytes@.contains_key(self.file.id)"), ("", "offset + old(dest)@.len() <= disk.bytes@[self.file.id].len()")], ensures=READ_ENS("self.file.id")),
        dict(kind="fn", file=ST, path="impl FdBackend / fn flush", sig_rules=W_SIG, rules=RULES, ensures=[("C16:flush_never_changes_the_bytes", "final(disk).bytes == old(disk).bytes")]),
        dict(kind="fn", file=ST, path="impl FdBackend / fn len", ensures=[("", "ret == self.len")]),
        dict(kind="fn", file=ST, path="impl StorageImpl / fn write", sig_rules=W_SIG, rules=RULES,
             requires=[("", "st_wf(*self, *old(disk))"), ("", "offset + data@.len() <= st_len(*self)")], ensures=WRITE_ENS("st_id(*self)")),
        dict(kind="fn", file=ST, path="impl StorageImpl / fn read", sig_rules=R_SIG, rules=RULES,
             requires=[("", "st_wf(*self, *disk)"), ("", "offset + old(dest)@.len() <= st_len(*self)")], ensures=READ_ENS("st_id(*self)")),
        dict(kind="fn", file=ST, path="impl StorageImpl / fn flush", sig_rules=W_SIG, rules=RULES, ensures=[("C16:flush_never_changes_the_bytes", "final(disk).bytes == old(disk).bytes")]),
        dict(kind="fn", file=ST, path="impl StorageImpl / fn len", ensures=[("C16:len_is_the_file_length_in_either_backend", "ret == st_len(*self)")]),
    ],
)
