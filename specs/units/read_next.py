# Walrus::read_next, whole function (walrus_read.rs 24-345).  C02, C15, C09 (+C01 ordering, stage 2).
from specs.units._core import *
from specs.units.batch_read_parse import BLOCK_MIRROR, CONSTS
from specs.units.core_persist import COLINFO_MIRROR

W = RT + "walrus.rs"
WR = RT + "walrus_read.rs"
BLK = "src/wal/block.rs"

RN_RULES = [
    dict(rule="R16", kind="re", dotall=True, max=1,
         pat=r"let info_arc = if let Some\(arc\) = \{.*?\n        \};\n",
         repl="", why="reader-map lookup-or-create of the column cell -> the cell is the parameter `info_arc` (R16: the map never removes entries)"),
    dict(rule="R2", kind="re", dotall=True,
         pat=r"info_arc\s*\.write\(\)\s*\.map_err\(\s*\|_\|\s*\{?\s*io::Error::new\((?:[^()]|\([^()]*\))*\)\s*\}?\s*\)\?",
         repl="&mut *info_arc", why="column RwLock write guard -> &mut of the cell"),
    dict(rule="R2", kind="re", pat=r"(?m)^\s*drop\(info\);\n", repl="", why="drop(guard) deleted"),
    dict(rule="R7", kind="lit", old="BlockStateTracker::set_checkpointed_true(", new="self.globals.set_checkpointed_true(", why="global tracker -> explicit Globals"),
    dict(rule="R8", kind="re", dotall=True,
         pat=r"info\s*\.chain\s*\.iter\(\)\s*\.enumerate\(\)\s*\.find\(\|\(_, b\)\| b\.id == (\w+)\)\s*\.map\(\|\(idx, _\)\| idx\)",
         repl=r"chain_find_id(&info.chain, \1)", why="iter().enumerate().find().map() -> chain_find_id"),
    dict(rule="R2", kind="lit", old="&mut info,", new="&mut *info,", why="reborrow of guard"),
    dict(rule="R8e", kind="lit", old="match map.get(col_name) {", new="match hashmap_get_str(&*map, col_name) {", why="HashMap<String,_>::get(&str) -> stub"),
] + LOCK_RULES + IOERR_RULES + TO_STRING

UNIT = dict(
    name="read_next",
    props=["C02", "C15", "C09", "C01", "C12"],
    implicit_props=["C02", "C15", "C09", "C01"],  # the properties every obligation of the unit counts for; the others only through labelled clauses
    features=["allocator_api"],
    uses=["std::collections::HashMap", "vstd::std_specs::hash::*"],
    prelude=["core_types.rs", "str_ext.rs", "hashmap_ext.rs", "engine.rs"],
    assumptions=[
        "A-SEQ: one thread; the column cell `info_arc` is exclusively ours (lock elided); every re-acquisition sees what we left",
        "assumed contracts: Block::read (unit block_rw), should_persist (proved in core_persist), decrement_topic_entry_count (proved in core_counts), WalIndex::set (C10), Writer::snapshot_block",
    ],
    items=[
        CONSTS, BLOCK_MIRROR, COLINFO_MIRROR,
        dict(kind="struct", file=BLK, struct="Entry"),
        dict(kind="struct", file=W, struct="ReadConsistency", attrs=["#[derive(Clone, Copy)]"]),
        dict(kind="prelude", file="engine_read.rs"),
        dict(kind="mirror", file=W, struct="Walrus", fields=[
            ("read_offset_index", "Arc<RwLock<WalIndex>>", "WalIndex"),
            ("writers", "RwLock<HashMap<String, Arc<Writer>>>", "HashMap<String, WriterH>"),
            ("topic_entry_counts", "RwLock<HashMap<String, u64>>", "HashMap<String, u64>"),
            ("read_consistency", "ReadConsistency", "ReadConsistency"),
        ], ghost_fields=["globals: Globals"]),
        dict(kind="model", file="counts_model_core.rs"),
        dict(kind="model", file="persist_model.rs"),
        dict(kind="model", file="read_next_model.rs"),
        dict(kind="fn", file=WR, path="impl Walrus / fn read_next",
             sig_rules=[dict(pat=r"&self,", repl="&mut self, info_arc: &mut ColReaderInfo,")] + IOERR_SIG,
             rules=RN_RULES,
             requires=[("", "obeys_key_model::<String>()"),
                       ("", "wf_col(*old(info_arc))"),
                       ("", "wf_writers(old(self).writers@)")],
             ensures=[
                 ("C15:read_next_consume_decrements_one", "(checkpoint && ret matches Ok(Some(_))) ==> final(self).topic_entry_counts@ == counts_after_dec(old(self).topic_entry_counts@, col_name@, 1)"),
                 ("C15,C02:read_next_no_delivery_no_count_change", "!(checkpoint && ret matches Ok(Some(_))) ==> final(self).topic_entry_counts@ == old(self).topic_entry_counts@"),
                 ("C02:peek_leaves_persisted_index_untouched", "!checkpoint ==> final(self).read_offset_index == old(self).read_offset_index"),
                 ("C02:peek_keeps_cursor_position", "(!checkpoint && old(info_arc).hydrated_from_index) ==> sealed_pos(*final(info_arc)) == sealed_pos(*old(info_arc)) && final(info_arc).tail_block_id == old(info_arc).tail_block_id && final(info_arc).tail_offset == old(info_arc).tail_offset && final(info_arc).reads_since_persist == old(info_arc).reads_since_persist"),
                 ("C01,C02:chain_never_modified_by_reads", "final(info_arc).chain == old(info_arc).chain"),
                 ("C02,C12:marks_only_blocks_entirely_before_cursor", "marks_ok(final(self).globals.ckpt_calls@, old(self).globals.ckpt_calls@.len() as int, final(info_arc).chain@, final(info_arc).cur_block_idx as int)"),
                 ("C01:cursor_stays_well_formed", "wf_col(*final(info_arc))"),
                 ("C01:consuming_read_in_sealed_chain_moves_cursor_by_exactly_the_returned_entry",
                  "(checkpoint && old(info_arc).hydrated_from_index && sealed_pos(*old(info_arc)) < sum_used(old(info_arc).chain@, old(info_arc).chain.len() as int)) ==> (ret matches Ok(Some(e)) ==> sealed_pos(*final(info_arc)) == sealed_pos(*old(info_arc)) + PREFIX_META_SIZE + e.data.len())"),
                 ("C01:read_without_delivery_keeps_sealed_position", "(old(info_arc).hydrated_from_index && !(ret matches Ok(Some(_)))) ==> sealed_pos(*final(info_arc)) == sealed_pos(*old(info_arc))"),
                 ("C09:persisted_tail_position_never_behind_memory", "persists_ok(final(self).read_offset_index.log@, old(self).read_offset_index.log@.len() as int, *old(info_arc))"),
                 ("C09:persist_log_only_grows", "old(self).read_offset_index.log@.len() <= final(self).read_offset_index.log@.len()"),
             ],
             proof_prologue="proof { lemma_flag_ge(old(info_arc).tail_block_id); }",
             hints=[dict(after="let (active_block, written) = writer_arc.snapshot_block()?;",
                         text="            proof { lemma_tail_flag_inj(active_block.id, old(info_arc).tail_block_id); }"),
                    dict(before="self.globals.set_checkpointed_true(block.id as usize);",
                         text="                    proof { lemma_marks_advance(self.globals.ckpt_calls@, old(self).globals.ckpt_calls@.len() as int, info.chain@, info.cur_block_idx as int); }")],
             loops={0: dict(kind="loop", invariant=[
                 ("", "persisted_tail is None"),
                 ("", "(old(info_arc).tail_block_id | (1u64 << 63)) >= 0x8000_0000_0000_0000"),
                 ("", "wf_col(*info_arc)"), ("", "wf_writers(self.writers@)"), ("", "obeys_key_model::<String>()"),
                 ("", "info_arc.chain == old(info_arc).chain"),
                 ("", "self.topic_entry_counts == old(self).topic_entry_counts"),
                 ("", "self.writers == old(self).writers"),
                 ("", "self.read_consistency == old(self).read_consistency"),
                 ("", "!checkpoint ==> self.read_offset_index == old(self).read_offset_index"),
                 ("", "(!checkpoint && old(info_arc).hydrated_from_index) ==> sealed_pos(*info_arc) == sealed_pos(*old(info_arc)) && info_arc.tail_block_id == old(info_arc).tail_block_id && info_arc.tail_offset == old(info_arc).tail_offset && info_arc.reads_since_persist == old(info_arc).reads_since_persist"),
                 ("C01:advancing_past_a_finished_block_keeps_the_position", "old(info_arc).hydrated_from_index ==> sealed_pos(*info_arc) == sealed_pos(*old(info_arc))"),
                 ("", "marks_ok(self.globals.ckpt_calls@, old(self).globals.ckpt_calls@.len() as int, info_arc.chain@, info_arc.cur_block_idx as int)"),
                 ("", "old(self).globals.ckpt_calls@.len() <= self.globals.ckpt_calls@.len()"),
                 ("", "persists_ok(self.read_offset_index.log@, old(self).read_offset_index.log@.len() as int, *old(info_arc))"),
                 ("", "old(self).read_offset_index.log@.len() <= self.read_offset_index.log@.len()"),
                 ("", "info_arc.tail_block_id == old(info_arc).tail_block_id && info_arc.tail_offset == old(info_arc).tail_offset"),
             ],
                             decreases="info_arc.chain.len() - info_arc.cur_block_idx")},
             ),
    ],
)
