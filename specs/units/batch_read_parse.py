# batch_read_for_topic, region 4 "Parse entries from buffers in plan order" (walrus_read.rs ~984-1103)
# C03: entry cap, byte budget.  C01/C15: what is returned / counted.  C11: (context W only; see DESIGN 3.5)
from specs.units._core import *

WR = RT + "walrus_read.rs"
CFG = "src/wal/config.rs"
BLK = "src/wal/block.rs"

RKYV_RULES = [
    dict(rule="R5", kind="re", pat=r"(?:rkyv::)?AlignedVec::with_capacity", repl="AlignedVec::with_capacity", min=0, why="rkyv::AlignedVec -> stand-in"),
    dict(rule="R5", kind="re", pat=r"rkyv::archived_root::<Metadata>\(&(\w+)\[\.\.\]\)", repl=r"rkyv_archived_root_metadata(&\1)", min=0,
         why="rkyv::archived_root::<Metadata>(&a[..]) -> unsafe stub with `requires valid_archive`"),
    dict(rule="R5", kind="re", pat=r"\.deserialize\(&mut rkyv::Infallible\)", repl=".deserialize_infallible()", min=0, why="deserialize(&mut Infallible) -> stub"),
] + DECODE_CALL_RULES
MISC_RULES = [dict(rule="R5", kind="re", pat=r"u64::from_be_bytes\(", repl="u64_from_be_bytes(", min=0, why="u64::from_be_bytes (logging only) -> stub")]
ENUM_FOR = [
    dict(rule="R8", kind="re", pat=r"for \((\w+), (\w+)\) in (\w+)\.iter\(\)\.enumerate\(\) \{", repl=r"for \1 in 0..\3.len() { let \2 = &\3[\1];", min=0,
         why="for (i,x) in v.iter().enumerate() -> indexed loop"),
]
BLOCK_MIRROR = dict(kind="mirror", file=BLK, struct="Block", fields=[
    ("id", "u64", "u64"), ("offset", "u64", "u64"), ("limit", "u64", "u64"), ("used", "u64", "u64"),
    ("file_path", "String", "String"), ("mmap", "Arc<SharedMmap>", "MmapH")])
CONSTS = dict(kind="lines", file=CFG, patterns=[r"^pub\(crate\) const MAX_BATCH_ENTRIES: usize = \d+;$", r"^pub const PREFIX_META_SIZE: usize = \d+;$"])

OUTS = "(Vec<Entry>, usize, usize, u64, u64, u64, u32, bool)"

UNIT = dict(
    name="batch_read_parse",
    props=["C03", "C01", "C15", "C11"],
    prelude=["core_types.rs", "engine.rs"],
    post_types_prelude=["rkyv.rs"],
    assumptions=[
        "context W (well-formed bytes): every header slice handed to rkyv::archived_root is a valid archive and decoded read_size < 2^40 (damaged bytes are C11's Kani harnesses)",
        "A-ARITH: usize == u64; fewer than 2^32 entries parsed per call (plan.len() < 1024, each range <= 1 GiB)",
        "R14 region cut: live-ins/live-outs of the region are the declared parameters/results; the spine (region order) is by variable name",
    ],
    items=[
        CONSTS,
        BLOCK_MIRROR,
        dict(kind="struct", file=BLK, struct="Entry"),
        dict(kind="struct", file=BLK, struct="Metadata"),
        dict(kind="struct", file=WR, struct="ReadPlan"),
        dict(kind="prelude", file="rkyv.rs"),
        DECODE_ITEM,
        dict(kind="model", file="parse_model.rs"),
        dict(kind="model", file="bytes_model.rs"),
        CHECKSUM_ITEM,
        dict(kind="region", file=WR, within="impl Walrus / fn batch_read_for_topic",
             start="// 4) Parse entries from buffers in plan order", end="// 5) Commit progress (optional)",
             sig="fn batch_read_parse(plan: &Vec<ReadPlan>, buffers: &Vec<Vec<u8>>, max_bytes: usize, initial_trim_in: usize, cons_out: &mut Ghost<Seq<usize>>) -> (ret: IoResult<%s>)" % OUTS,
             pre="let mut initial_trim = initial_trim_in;\n",
             post="Ok((entries, total_data_bytes, final_block_idx, final_block_offset, final_tail_block_id, final_tail_offset, entries_parsed, saw_tail))",
             rules=ENUM_FOR + RKYV_RULES + IOERR_RULES + MISC_RULES,
             requires=[
                 ("", "buffers.len() == plan.len()"),
                 ("", "plan.len() < 1024"),
                 ("", "forall|i: int| 0 <= i < buffers.len() ==> #[trigger] buffers[i].len() <= 0x4000_0000 && plan[i].start + buffers[i].len() <= u64::MAX"),
                 ("", "bytes_well_formed()"),
             ],
             ensures=[
                 ("C03:parse_entry_cap", "ret matches Ok(o) ==> o.0.len() <= MAX_BATCH_ENTRIES"),
                 ("C03:parse_budget_or_single", "ret matches Ok(o) ==> (payload_sum(o.0@) <= max_bytes || o.0.len() <= 1)"),
                 ("C15:parse_count_covers_returned", "ret matches Ok(o) ==> o.0.len() <= o.6"),
                 ("C01,C03,C15:parse_returns_every_parsed_entry", "ret matches Ok(o) ==> (initial_trim_in == 0 ==> o.0.len() == o.6)"),
                 ("C03:parse_returns_at_least_one_entry_when_the_first_range_starts_with_a_whole_entry", "ret matches Ok(o) ==> ((initial_trim_in == 0 && plan@.len() > 0 && entry_ok_d(buffers@[0]@, 0)) ==> o.0.len() >= 1)"),
                 ("C01:parse_returns_exactly_the_payloads_of_the_entries_it_walked_over_in_order",
                  "ret matches Ok(o) ==> (initial_trim_in == 0 ==> all_packed(buffers@, final(cons_out)@) && entries_view(o.0@) == all_payloads(buffers@, final(cons_out)@, final(cons_out)@.len() as int))"),
             ],
             hints=[dict(before="        for plan_idx in 0..plan.len()", text="        let ghost mut consumed: Seq<usize> = Seq::empty(); // ghost: where parsing of each range stopped\n        proof { assert(entries_view(entries@) =~= Seq::<Seq<u8>>::empty()); }"),
                    dict(after_loop=1, text="            proof { lemma_ranges_done_push(consumed, plan@, buffers@, plan_idx as int, buf_offset); if initial_trim_in == 0 { lemma_all_payloads_push(buffers@, consumed, buf_offset); lemma_all_packed_push(buffers@, consumed, buf_offset); } consumed = consumed.push(buf_offset); }"),
                    dict(after_loop=0, text="        *cons_out = Ghost(consumed);"),
                    dict(after="aligned.extend_from_slice(&buffer[buf_offset + 2..buf_offset + 2 + meta_len]);", text="                proof { assert(aligned@ =~= buffer@.subrange(buf_offset + 2, buf_offset + 2 + meta_len)); }"),
                    dict(before="                buf_offset += entry_consumed;", text="                proof { if initial_trim_in == 0 { lemma_packed_extend(buffer@, 0, buf_offset as int); } }"),
                    dict(before="entries.push(Entry { data: final_data });", text="                    let ghost es0 = entries@;"),
                    dict(after="entries.push(Entry { data: final_data });", text="                    proof { lemma_payload_sum_push(es0, entries@.last()); lemma_view_push(es0, entries@.last()); }")],
             loops={
                 0: dict(kind="for", ensures=[("C03:parse_returns_at_least_one_entry_when_the_first_range_starts_with_a_whole_entry", "(initial_trim_in == 0 && plan@.len() > 0 && entry_ok_d(buffers@[0]@, 0)) ==> entries.len() >= 1")], invariant_except_break=[
                     # entries of range p are only looked at after every earlier range was delivered to the end of its block
                     ("C01:inv_no_range_skipped", "ranges_done(consumed, plan@, buffers@, plan_idx as int)"),
                 ], invariant=[
                     ("", "buffers.len() == plan.len()"), ("", "plan.len() < 1024"),
                     ("", "forall|i: int| 0 <= i < buffers.len() ==> #[trigger] buffers[i].len() <= 0x4000_0000 && plan[i].start + buffers[i].len() <= u64::MAX"),
                     ("", "bytes_well_formed()"),
                     ("C03:inv_cap", "entries.len() <= MAX_BATCH_ENTRIES"),
                     ("C03:inv_budget", "entries.len() >= 2 ==> total_data_bytes <= max_bytes"),
                     ("C03:inv_payload_le_total", "payload_sum(entries@) <= total_data_bytes"),
                     ("C15:inv_parsed_ge_returned", "entries.len() <= entries_parsed"),
                     ("C01,C03,C15:inv_every_parsed_entry_returned", "initial_trim_in == 0 ==> entries.len() == entries_parsed && initial_trim == 0"),
                     ("C01:parse_returns_exactly_the_payloads_of_the_entries_it_walked_over_in_order", "initial_trim_in == 0 ==> all_packed(buffers@, consumed) && entries_view(entries@) == all_payloads(buffers@, consumed, consumed.len() as int)"),
                     ("C03:parse_returns_at_least_one_entry_when_the_first_range_starts_with_a_whole_entry", "((initial_trim_in == 0 && plan@.len() > 0 && entry_ok_d(buffers@[0]@, 0)) && plan_idx > 0) ==> entries.len() >= 1"),
                     ("", "entries_parsed as int <= plan_idx * 0x40_0000"),
                     ("", "total_data_bytes as int <= plan_idx * 0x4000_0000"),
                 ]),
                 1: dict(kind="while", invariant=[
                     ("", "buffers.len() == plan.len()"), ("", "plan.len() < 1024"), ("", "0 <= plan_idx < plan.len()"),
                     ("", "buffer@ == buffers[plan_idx as int]@"), ("", "buffer.len() <= 0x4000_0000"),
                     ("", "read_plan.start + buffer.len() <= u64::MAX"),
                     ("", "bytes_well_formed()"),
                     ("", "buf_offset <= buffer.len()"),
                     ("C03:inv_cap", "entries.len() <= MAX_BATCH_ENTRIES"),
                     ("C03:inv_budget", "entries.len() >= 2 ==> total_data_bytes <= max_bytes"),
                     ("C03:inv_payload_le_total", "payload_sum(entries@) <= total_data_bytes"),
                     ("C15:inv_parsed_ge_returned", "entries.len() <= entries_parsed"),
                     ("C01,C03,C15:inv_every_parsed_entry_returned", "initial_trim_in == 0 ==> entries.len() == entries_parsed && initial_trim == 0"),
                     ("C01:parse_returns_exactly_the_payloads_of_the_entries_it_walked_over_in_order", "initial_trim_in == 0 ==> all_packed(buffers@, consumed) && consumed.len() == plan_idx && packed_d(buffer@, 0, buf_offset as int) && entries_view(entries@) == all_payloads(buffers@, consumed, consumed.len() as int) + payloads_d(buffer@, 0, buf_offset as int)"),
                     ("C03:parse_returns_at_least_one_entry_when_the_first_range_starts_with_a_whole_entry", "((initial_trim_in == 0 && plan@.len() > 0 && entry_ok_d(buffers@[0]@, 0)) && (plan_idx > 0 || buf_offset > 0)) ==> entries.len() >= 1"),
                     ("", "entries_parsed as int <= plan_idx * 0x40_0000 + buf_offset / 256"),
                     ("", "total_data_bytes as int <= plan_idx * 0x4000_0000 + buf_offset"),
                 ], ensures=[("C03:parse_returns_at_least_one_entry_when_the_first_range_starts_with_a_whole_entry", "(initial_trim_in == 0 && plan@.len() > 0 && entry_ok_d(buffers@[0]@, 0)) ==> entries.len() >= 1")],
                    decreases="buffer.len() - buf_offset"),
             }),
    ],
)
