# C10: WalIndex::persist / set (index.rs) over the power-loss file system model: what survives a power loss once the call returned.
from specs.units._core import *
IDX = RT + "index.rs"
PATHS = "src/wal/paths.rs"
CFG = "src/wal/config.rs"
RULES = [
    dict(rule="R9", kind="lit", old='format!("{}.tmp", self.path)', new="tmp_name(&self.path)", why='format!("{}.tmp", path) -> stub with the concatenation as its spec'),
    dict(rule="R5", kind="re", dotall=True, pat=r"rkyv::to_bytes::<_, 256>\(&self\.store\)\.map_err\(\|e\| \{.*?\}\)\?", repl="(match rkyv_to_bytes_index(&self.store) { Ok(b) => b, Err(_) => return Err(io_err(IoKind::Other)) })",
         why="rkyv::to_bytes(..).map_err(..)? -> stub + explicit match"),
    dict(rule="R6", kind="lit", old="fs::write(&tmp_path, &bytes)?;", new="fs_write(fs, &tmp_path, bytes.as_slice())?;", why="std::fs::write -> power-loss model"),
    dict(rule="R6", kind="re", pat=r"fs::File::open\(&(tmp_path|self\.path)\)\?\.sync_all\(\)\?;", repl=r"fs_open(fs, &\1)?.sync_all(fs)?;", why="File::open + sync_all -> power-loss model"),
    dict(rule="R6", kind="lit", old="fs::rename(&tmp_path, &self.path)?;", new="fs_rename(fs, &tmp_path, &self.path)?;", why="std::fs::rename -> power-loss model"),
    dict(rule="R6", kind="lit", old="sync_parent_dir(&self.path)?;", new="fs_sync_dir(fs)?;", min=0, why="sync of the parent directory -> power-loss model (one directory)"),
] + IOERR_RULES
TC = RT + "topic_clean.rs"
M_RULES = [
    dict(rule="R9", kind="lit", old='format!("{}.tmp", path)', new="tmp_name_str(path)", why='format!("{}.tmp", path) -> stub with the concatenation as its spec'),
    dict(rule="R5", kind="re", dotall=True, pat=r"rkyv::to_bytes::<_, 256>\(map\)\.map_err\(\|e\| \{.*?\}\)\?", repl="(match rkyv_to_bytes_markers(map) { Ok(b) => b, Err(_) => return Err(io_err(IoKind::Other)) })",
         why="rkyv::to_bytes(..).map_err(..)? -> stub + explicit match"),
    dict(rule="R6", kind="lit", old="fs::write(&tmp_path, &bytes)?;", new="fs_write(fs, &tmp_path, bytes.as_slice())?;", why="std::fs::write -> power-loss model"),
    dict(rule="R6", kind="re", pat=r"fs::File::open\(&(tmp_path|self\.path)\)\?\.sync_all\(\)\?;", repl=r"fs_open(fs, &\1)?.sync_all(fs)?;", why="File::open + sync_all -> power-loss model"),
    dict(rule="R6", kind="lit", old="fs::rename(&tmp_path, path)?;", new="fs_rename_str(fs, &tmp_path, path)?;", why="std::fs::rename -> power-loss model"),
    dict(rule="R6", kind="lit", old="super::index::sync_parent_dir(path)?;", new="fs_sync_dir(fs)?;", min=0, why="sync of the parent directory -> power-loss model (one directory)"),
] + IOERR_RULES
P_RULES = [
    dict(rule="R6", kind="re", pat=r"self\.ensure_root\(\)", repl="self.ensure_root(fs)", min=0, why="ghost file system threaded"),
    dict(rule="R6", kind="lit", old="self.newest_wal_file_millis()", new="self.newest_wal_file_millis(fs)", min=0, why="directory listing -> assumed contract over the model"),
    dict(rule="R9", kind="lit", old="self.root.join(&file_name)", new="path_join(&self.root, &file_name)", min=0, why="PathBuf::join -> stub"),
    dict(rule="R6", kind="re", pat=r"(?:std::)?fs::File::create\(&path\)", repl="fs_create(fs, &path)", min=0, why="File::create -> power-loss model"),
    dict(rule="R6", kind="re", pat=r"(?:std::)?fs::File::open\(&self\.root\)", repl="fs_open_dir(fs, &self.root)", min=0, why="File::open(dir) -> power-loss model"),
    dict(rule="R6", kind="re", pat=r"(?:std::)?fs::create_dir_all\(&self\.root\)", repl="fs_create_dir_all(fs, &self.root)", min=0, why="create_dir_all -> power-loss model"),
    dict(rule="R6", kind="re", pat=r"\.set_len\(", repl=".set_len(fs, ", min=0, why="ghost file system threaded"),
    dict(rule="R6", kind="re", pat=r"\.sync_all\(\)", repl=".sync_all(fs)", min=0, why="ghost file system threaded"),
    dict(rule="R9", kind="lit", old="path.to_string_lossy().into_owned()", new="path_to_string(&path)", min=0, why="PathBuf -> String stub"),
    dict(rule="R6", kind="re", pat=r"(?<![\w.])sync_parent_dir\((&[\w.]+)\)", repl=r"fs_sync_parent_of(fs, \1)", min=0, why="a sync of the directory holding the given path -> power-loss model (durable only if that is the instance directory)"),
]
P_SIG = [dict(pat=r"\(&self\)", repl="(&self, fs: &mut Fs)")] + IOERR_SIG

UNIT = dict(
    name="c10_persist",
    props=["C10", "C09", "C06", "C17"],
    features=["allocator_api"],
    uses=["std::collections::HashMap", "vstd::std_specs::hash::*"],
    prelude=["core_types.rs"],
    assumptions=[
        "A-FS: the power-loss model of specs/model/fs_model.rs (file contents durable after sync_all on the file; directory entries - creations and renames - durable after sync_all on the directory; rename atomic)",
        "sync_parent_dir (open(parent) + sync_all) is the model's fs_sync_dir: one directory per instance",
        "A-RKYV: the byte image is a function of the map and decodes back to it",
        "preconditions of persist / persist_map (assumed, no caller is checked against them): no hard links - a left-over temporary file does not share its inode with the live file or with any other durable directory entry",
    ],
    items=[
        dict(kind="struct", file=IDX, struct="BlockPos", attrs=[]),
        dict(kind="model", file="fs_model.rs"),
        dict(kind="mirror", file=IDX, struct="WalIndex", fields=[("store", "HashMap<String, BlockPos>", "HashMap<String, BlockPos>"), ("path", "String", "String")]),
        dict(kind="fn", file=IDX, path="impl WalIndex / fn persist", sig_rules=[dict(pat=r"\(&self\)", repl="(&self, fs: &mut Fs)")] + IOERR_SIG, rules=RULES,
             requires=[("", "!old(fs).vol_dir@.contains_key(self.path@ + seq!['.', 't', 'm', 'p']) || old(fs).vol_dir@[self.path@ + seq!['.', 't', 'm', 'p']] != (if old(fs).vol_dir@.contains_key(self.path@) { old(fs).vol_dir@[self.path@] } else { -1 })"),
                       ("", "forall|p: Seq<char>| #[trigger] old(fs).dur_dir@.contains_key(p) && p != self.path@ + seq!['.', 't', 'm', 'p'] && old(fs).vol_dir@.contains_key(self.path@ + seq!['.', 't', 'm', 'p']) ==> old(fs).dur_dir@[p] != old(fs).vol_dir@[self.path@ + seq!['.', 't', 'm', 'p']]")],
             ensures=[("C10,C09:a_persisted_cursor_survives_power_loss_once_the_call_returned", "ret is Ok ==> after_power_loss(*final(fs), self.path@) == Some(index_bytes(self.store@))"),
                      ("C10:a_power_loss_during_persist_leaves_the_old_or_the_new_cursor_file", "ret is Err ==> after_power_loss(*final(fs), self.path@) == after_power_loss(*old(fs), self.path@) || after_power_loss(*final(fs), self.path@) == Some(index_bytes(self.store@))")]),
        dict(kind="lines", file=CFG, patterns=[r"^pub\(crate\) const DEFAULT_BLOCK_SIZE: u64 = 10 \* 1024 \* 1024;.*$", r"^pub\(crate\) const BLOCKS_PER_FILE: u64 = \d+;$", r"^pub\(crate\) const MAX_FILE_SIZE: u64 = DEFAULT_BLOCK_SIZE \* BLOCKS_PER_FILE;$"]),
        dict(kind="mirror", file=PATHS, struct="WalPathManager", fields=[("root", "PathBuf", "PathBuf")]),
        dict(kind="fn", file=PATHS, path="impl WalPathManager / fn ensure_root", sig_rules=P_SIG, rules=P_RULES,
             ensures=[("", "final(fs).vol_dir == old(fs).vol_dir && final(fs).vol_data == old(fs).vol_data && final(fs).dur_data == old(fs).dur_data")]),
        dict(kind="fn", file=PATHS, path="impl WalPathManager / fn create_new_file", sig_rules=P_SIG, rules=P_RULES,
             ensures=[("C06:a_new_wal_file_never_reuses_or_sorts_before_the_name_of_an_existing_one", "ret matches Ok(p) ==> exists|n: Seq<char>| p@ == join_spec(self.root.p@, n) && name_value(n) is Some && forall|m: Seq<char>| #[trigger] old(fs).vol_dir@.contains_key(join_spec(self.root.p@, m)) && name_value(m) is Some ==> name_value(m)->Some_0 < name_value(n)->Some_0"),
                      ("C10:a_new_wal_file_is_durable_with_its_full_size_when_its_creation_returns", "ret matches Ok(p) ==> after_power_loss(*final(fs), p@) == Some(Seq::new(MAX_FILE_SIZE as nat, |i: int| 0u8))")]),
        dict(kind="struct", file=TC, struct="CleanMarkerRecord", attrs=[]),
        dict(kind="model", file="fs_markers_model.rs"),
        dict(kind="fn", file=TC, path="impl CleanMarkerStore / fn persist_map", wrap_impl=False,
             sig_rules=[dict(pat=r"\(path: &str,", repl="(fs: &mut Fs, path: &str,")] + IOERR_SIG, rules=M_RULES,
             requires=[("", "!old(fs).vol_dir@.contains_key(path@ + seq!['.', 't', 'm', 'p']) || old(fs).vol_dir@[path@ + seq!['.', 't', 'm', 'p']] != (if old(fs).vol_dir@.contains_key(path@) { old(fs).vol_dir@[path@] } else { -1 })"),
                       ("", "forall|p: Seq<char>| #[trigger] old(fs).dur_dir@.contains_key(p) && p != path@ + seq!['.', 't', 'm', 'p'] && old(fs).vol_dir@.contains_key(path@ + seq!['.', 't', 'm', 'p']) ==> old(fs).dur_dir@[p] != old(fs).vol_dir@[path@ + seq!['.', 't', 'm', 'p']]")],
             ensures=[("C10,C17:persisted_clean_markers_survive_power_loss_once_the_call_returned", "ret is Ok ==> after_power_loss(*final(fs), path@) == Some(markers_bytes(map@))")]),
    ],
)
