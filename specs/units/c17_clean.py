# C17: topic clean/dirty markers (topic_clean.rs): in-memory state, what gets queued for persisting, what persist_updates stores,
# what shutdown (run by Walrus::drop) leaves in the marker file, what hydrate installs at the next open.
from specs.units._core import *

TC = RT + "topic_clean.rs"
WALRUS = RT + "walrus.rs"
ATOM = [
    dict(rule="R4", kind="re", pat=r"Atomic\w+::new\(((?:[^()]|\([^()]*\))*)\)", repl=r"\1", min=0, why="AtomicX::new(v) -> v (SEQ)"),
    dict(rule="R4", kind="re", pat=r"\.load\(Ordering::\w+\)", repl="", min=0, why="atomic load -> field read (SEQ)"),
    dict(rule="R4", kind="re", pat=r"\.store\(([^,()]+),\s*Ordering::\w+\)", repl=r" = \1", min=0, why="atomic store -> assignment (SEQ)"),
    dict(rule="R4", kind="re", pat=r"self\.generation\.fetch_add\(1, Ordering::\w+\) \+ 1", repl="{ self.generation = self.generation.wrapping_add(1); self.generation }", min=0, why="fetch_add(1)+1 -> increment-then-read (SEQ, wrapping)"),
    dict(rule="R4", kind="re", pat=r"\.swap\(([^,()]+),\s*Ordering::\w+\)", repl=r".vx_swap(\1)", min=0, why="atomic swap -> read-then-write (SEQ)"),
]
GET_OR_INSERT_BODY = r'''
        if let Ok(guard) = self.states.read() {
            if let Some(existing) = guard.get(topic) {
                return existing.clone();
            }
        }
        let mut guard = self
            .states
            .write()
            .expect("topic tracker map write lock poisoned");
        guard
            .entry(topic.to_string())
            .or_insert_with(|| Arc::new(TopicCleanState::default()))
            .clone()
'''
TOPIC_IS_CLEAN_BODY = r'''
        self.states
            .read()
            .ok()
            .and_then(|guard| guard.get(topic).cloned())
            .map(|state| state.is_clean.load(Ordering::Acquire))
            .unwrap_or(true)
'''
WF = [("", "obeys_key_model::<String>()")]
UNIT = dict(
    name="c17_clean",
    props=["C17"],
    features=["allocator_api"],
    uses=["std::collections::HashMap", "vstd::std_specs::hash::*"],
    prelude=["core_types.rs", "str_ext.rs", "hashmap_ext.rs"],
    assumptions=[
        "A-SEQ: one thread calls the tracker; atomics are plain fields; R16: the per-topic Arc cells are the map's values",
        "get_or_insert_state and topic_is_clean are assumed contracts tied to their exact source text (any edit -> undecided)",
        "the persister thread is outside the unit: the channel is the ghost log of queued topics; JoinHandle::join is a no-op in the one-thread model, so a persister that is still writing after shutdown() returned is excluded by assumption (the join), not by proof",
        "A-FS: persist_map (rkyv serialise, write tmp, fsync, rename) leaves exactly the given map as the marker file or reports an error; CleanMarkerStore::new_in reads that map back (rkyv round trip trusted)",
        "iteration over std HashMap (flush_all's iter().map().collect(), hydrate's by-value for loop) is an assumed contract: the pairs, each key once, in some order",
    ],
    items=[
        dict(kind="struct", file=TC, struct="CleanMarkerRecord", attrs=["#[derive(Clone)]"]),
        dict(kind="mirror", file=TC, struct="TopicCleanState", mirror_all=True),
        dict(kind="mirror", file=TC, struct="CleanMarkerStore", fields=[("path", "String", "String"), ("store", "RwLock<HashMap<String, CleanMarkerRecord>>", "HashMap<String, CleanMarkerRecord>")],
             ghost_fields=["file: Ghost<Map<String, CleanMarkerRecord>>", "failed: Ghost<bool>"]),
        dict(kind="model", file="c17_model.rs"),
        dict(kind="stub", sig="pub fn get_or_insert_state<'a>(states: &'a mut HashMap<String, TopicCleanState>, topic: &str) -> (r: &'a mut TopicCleanState)",
             anchor=dict(file=TC, path="impl TopicCleanTracker / fn get_or_insert_state", body=GET_OR_INSERT_BODY),
             ensures=[("", "old(states)@.contains_key(string_of(topic@)) ==> *r == old(states)@[string_of(topic@)]"),
                      ("", "!old(states)@.contains_key(string_of(topic@)) ==> default_state(*r)"),
                      ("", "final(states)@ == old(states)@.insert(string_of(topic@), *final(r))")]),
        dict(kind="stub", impl="TopicCleanTracker", sig="pub fn topic_is_clean(&self, topic: &str) -> (r: bool)",
             anchor=dict(file=TC, path="impl TopicCleanTracker / fn topic_is_clean", body=TOPIC_IS_CLEAN_BODY),
             ensures=[("", "r == reported_clean(self.states@, topic@)")]),
        dict(kind="fn", file=TC, path="impl TopicCleanState / fn new", rules=ATOM,
             ensures=[("C17:new_state_carries_the_record", "snap(ret) == record")]),
        dict(kind="fn", file=TC, path="impl TopicCleanState / fn snapshot", rules=ATOM,
             ensures=[("C17:snapshot_is_the_current_state", "ret == snap(*self)")]),
        dict(kind="fn", file=TC, path="impl TopicCleanState / fn update", sig_rules=SELF_MUT, rules=ATOM,
             ensures=[("C17:update_sets_the_requested_state", "final(self).is_clean == desired_clean"),
                      ("C17:update_reports_a_change_exactly_when_the_state_changed", "(ret is Some) == (old(self).is_clean != desired_clean)"),
                      ("C17:update_bumps_generation_only_on_change", "final(self).generation == (if old(self).is_clean != desired_clean { if old(self).generation == u64::MAX { 0 } else { (old(self).generation + 1) as u64 } } else { old(self).generation })"),
                      ("C17:update_returns_the_new_record", "ret matches Some(r) ==> r == snap(*final(self))")]),
        dict(kind="fn", file=TC, path="impl TopicCleanTracker / fn update_state", sig_rules=SELF_MUT,
             rules=[dict(rule="R16", kind="lit", old="self.get_or_insert_state(topic)", new="get_or_insert_state(&mut self.states, topic)", why="cell lookup -> assumed-contract stub over the map")] + TO_STRING + ATOM,
             requires=WF + [("", "tracker_wf(*old(self))")],
             ensures=[("C17:reported_state_is_the_requested_one_after_return", "reported_clean(final(self).states@, topic@) == desired_clean"),
                      ("C17:other_topics_keep_their_state", "forall|t: Seq<char>| t != topic@ ==> reported_clean(final(self).states@, t) == reported_clean(old(self).states@, t)"),
                      ("", "tracker_wf(*final(self)) && final(self).store == old(self).store")],
             proof_epilogue="proof { lemma_insert_frame(old(self).states@, self.states@, topic@); }"),
        dict(kind="fn", file=TC, path="impl TopicCleanTracker / fn mark_dirty", sig_rules=SELF_MUT, requires=WF + [("", "tracker_wf(*old(self))")],
             ensures=[("C17:mark_dirty_reports_dirty", "!reported_clean(final(self).states@, topic@)"), ("", "tracker_wf(*final(self))")]),
        dict(kind="fn", file=TC, path="impl TopicCleanTracker / fn mark_clean", sig_rules=SELF_MUT, requires=WF + [("", "tracker_wf(*old(self))")],
             ensures=[("C17:mark_clean_reports_clean", "reported_clean(final(self).states@, topic@)"), ("", "tracker_wf(*final(self))")]),
        dict(kind="fn", file=TC, path="impl CleanMarkerStore / fn persist_updates", sig_rules=SELF_MUT + IOERR_SIG,
             rules=[dict(rule="R2", kind="re", pat=r"self\s+\.store\s+\.write\(\)\s+\.map_err", repl="self.store.write().map_err", why="method chain joined onto one line")] + LOCK_RULES + IOERR_RULES + [
                 dict(rule="R8", kind="lit", old="for (topic, record) in updates {", new="let mut __k: usize = 0; while __k < updates.len() { let __i = __k; __k = __k + 1; let (topic, record) = (&updates[__i].0, &updates[__i].1);", why="for (a,b) in slice -> indexed while loop (index advanced first, so `continue` keeps its meaning)"),
                 dict(rule="R5", kind="re", pat=r"\brecord\.clone\(\)", repl="derived_clone(record)", min=0, why="derived Clone of the plain-data record -> field-wise copy stub"),
                 dict(rule="R6", kind="lit", old="Self::persist_map(&self.path, &guard)", new="persist_map(&self.path, &*guard, &mut self.file, &mut self.failed)", why="file effect made explicit on the ghost marker file"),
             ],
             requires=WF,
             ensures=[("C17:persist_updates_stores_every_update_latest_last", "final(self).store@ == apply_updates(old(self).store@, updates@)"),
                      ("C17:persist_updates_writes_the_whole_store_to_the_marker_file", "ret is Ok && updates@.len() > 0 ==> final(self).file@ == final(self).store@"),
                      ("C17:persist_updates_reports_failure", "ret is Err ==> final(self).failed@"),
                      ("", "ret is Ok ==> final(self).failed@ == old(self).failed@"),
                      ("", "(updates@.len() == 0 || ret is Err) ==> final(self).file@ == old(self).file@")],
             hints=[dict(loop_body_end=0, text="            proof { assert(updates@.take(__i + 1).drop_last() =~= updates@.take(__i as int)); assert(updates@.take(__i + 1).last() == updates@[__i as int]); }"),
                    dict(after_loop=0, text="        proof { assert(updates@.take(updates@.len() as int) =~= updates@); }")],
             loops={0: dict(kind="while", invariant=[("", "obeys_key_model::<String>()"), ("", "__k <= updates@.len()"), ("C17:persist_updates_stores_every_update_latest_last", "guard@ == apply_updates(old(self).store@, updates@.take(__k as int))") ], decreases="updates@.len() - __k")}),
        dict(kind="fn", file=TC, path="impl TopicCleanTracker / fn flush_all", sig_rules=SELF_MUT + IOERR_SIG,
             rules=[dict(rule="R8", kind="re", dotall=True,
                         pat=r"let snapshot = \{\s*let guard = self\.states\.read\(\)\.map_err\(\|_\| \{\s*std::io::Error::new\(std::io::ErrorKind::Other, \"topic tracker map lock poisoned\"\)\s*\}\)\?;\s*guard\s*\.iter\(\)\s*\.map\(\|\(topic, state\)\| \(topic\.clone\(\), state\.snapshot\(\)\)\)\s*\.collect::<Vec<_>>\(\)\s*\};",
                         repl="let snapshot = states_snapshot_vec(&self.states);",
                         why="read lock + iter().map(|(topic,state)| (topic.clone(), state.snapshot())).collect() -> assumed contract states_snapshot_vec (exact text matched)"),
                    dict(rule="R12", kind="re", pat=r"self\.store\.persist_updates\(&snapshot\)(\s*\})\s*$", repl="let ghost s0 = self.store.store@; let __ret = self.store.persist_updates(&snapshot); proof { if __ret is Ok && !self.store.failed@ { assert(self.store.file@ == apply_updates(s0, snapshot@)); lemma_flush(self.states@, s0, snapshot@, self.store.file@); } else { assert forall|k: String| self.store.store@.contains_key(k) implies self.states@.contains_key(k) by { lemma_apply_distinct(s0, snapshot@, k); } } } __ret\\1",
                         why="tail expression bound to a name so that the proof block (lemma_flush) can follow it")] + IOERR_RULES,
             requires=WF + [("", "tracker_wf(*old(self))")],
             ensures=[("C17:flush_writes_the_current_state_of_every_topic", "ret is Ok && !final(self).store.failed@ ==> forall|t: Seq<char>| reported_after_reopen(final(self).store.file@, t) == reported_clean(final(self).states@, t)"),
                      ("C17:flush_keeps_generations", "ret is Ok && !final(self).store.failed@ ==> forall|k: String| final(self).states@.contains_key(k) ==> final(self).store.file@.contains_key(k) && final(self).store.file@[k] == snap(final(self).states@[k])"),
                      ("C17:flush_reports_failure", "ret is Err ==> final(self).store.failed@"),
                      ("", "final(self).states == old(self).states && tracker_wf(*final(self)) && (ret is Ok ==> final(self).store.failed@ == old(self).store.failed@)")],
             proof_prologue="broadcast use axiom_string_of;"),
        dict(kind="fn", file=TC, path="impl TopicCleanTracker / fn shutdown", sig_rules=SELF_MUT + IOERR_SIG,
             rules=ATOM + IOERR_RULES + [dict(rule="R2", kind="lit", old="self.persister.lock().ok().and_then(|mut slot| slot.take())", new="self.persister.vx_take()", why="take the join handle out of its mutex (SEQ)")],
             requires=WF + [("", "tracker_wf(*old(self))")],
             ensures=[("C17:shutdown_leaves_the_reported_state_in_the_marker_file", "ret is Ok && !final(self).store.failed@ ==> forall|t: Seq<char>| reported_after_reopen(final(self).store.file@, t) == reported_clean(old(self).states@, t)"),
                      ("C17:shutdown_reports_failure", "ret is Err ==> final(self).store.failed@"),
                      ("", "final(self).states == old(self).states && (ret is Ok ==> final(self).store.failed@ == old(self).store.failed@)")]),
        dict(kind="fn", file=WALRUS, path="impl Drop for Walrus / fn drop", impl="Walrus",  # R17: Drop::drop checked as an inherent method (Verus forbids contracts on Drop impls)
             requires=WF + [("", "tracker_wf(old(self).topic_clean_tracker)"), ("", "!old(self).topic_clean_tracker.store.failed@")],
             ensures=[("C17:a_clean_shutdown_makes_the_reported_state_durable", "!final(self).topic_clean_tracker.store.failed@ ==> forall|t: Seq<char>| reported_after_reopen(final(self).topic_clean_tracker.store.file@, t) == reported_clean(old(self).topic_clean_tracker.states@, t)")]),
        dict(kind="fn", file=TC, path="impl TopicCleanTracker / fn hydrate", sig_rules=SELF_MUT,
             rules=LOCK_RULES + [
                 dict(rule="R8", kind="lit", old="for (topic, record) in snapshot {",
                      new="let __v = hashmap_into_vec(snapshot); let mut __k: usize = 0; while __k < __v.len() { let __i = __k; __k = __k + 1; let (topic, record) = (__v[__i].0.clone(), derived_clone(&__v[__i].1));",
                      why="by-value for loop over std HashMap -> assumed contract hashmap_into_vec + indexed loop"),
                 dict(rule="R16", kind="lit", old="Arc::new(TopicCleanState::new(record))", new="TopicCleanState::new(record)", why="Arc cell -> value"),
             ],
             requires=WF,
             ensures=[("C17:hydrate_installs_exactly_the_persisted_records", "old(self).states@.len() == 0 ==> (forall|k: String| #[trigger] snapshot@.contains_key(k) ==> final(self).states@.contains_key(k) && snap(final(self).states@[k]) == snapshot@[k]) && (forall|k: String| #[trigger] final(self).states@.contains_key(k) ==> snapshot@.contains_key(k))"),
                      ("C17:a_reopened_instance_reports_what_the_marker_file_holds", "old(self).states@.len() == 0 ==> forall|t: Seq<char>| reported_clean(final(self).states@, t) == reported_after_reopen(snapshot@, t)"),
                      ("", "final(self).store == old(self).store")],
             hints=[dict(before="if snapshot.is_empty()", text="        let ghost snap0 = snapshot@; let ghost st0 = self.states@;"),
                    dict(after_loop=0, text="            proof { lemma_hydrated(st0, snap0, __v@, guard@); }"),
                    dict(before="if snapshot.is_empty()", text="        proof { lemma_hydrate_empty(st0, snap0); }")],
             loops={0: dict(kind="while", invariant=[("", "obeys_key_model::<String>()"), ("", "pairs_of(snap0, __v@)"), ("", "__k <= __v@.len()"),
                                                   ("C17:hydrate_installs_exactly_the_persisted_records", "forall|j: int| 0 <= j < __k ==> guard@.contains_key(#[trigger] __v@[j].0) && snap(guard@[__v@[j].0]) == __v@[j].1"),
                                                   ("", "forall|k: String| #[trigger] guard@.contains_key(k) ==> st0.contains_key(k) || exists|j: int| 0 <= j < __k && #[trigger] __v@[j].0 == k")],
                            decreases="__v@.len() - __k")}),
    ],
)
