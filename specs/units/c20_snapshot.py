# C20: Metadata::snapshot / restore (distributed-walrus/src/metadata.rs) + the octopii state-machine adapter regions.
MD = "distributed-walrus/src/metadata.rs"

SNAP_RULES = [
    dict(rule="R2", kind="re", pat=r"self\.state\.read\(\)\.ok\(\)", repl="Some(&self.state)", min=0, why="RwLock::read().ok() -> Some(&cell) (A-LOCK: read() only fails when poisoned)"),
    dict(rule="R2", kind="re", pat=r"self\.state\.try_read\(\)\.ok\(\)", repl="lock_try_read(&self.state)", min=0, why="try_read() may fail under contention -> arbitrary Option"),
    dict(rule="R2", kind="re", pat=r"(\w+)\.as_deref\(\)", repl=r"\1", min=0, why="Option<guard>.as_deref() -> Option<&T>"),
    dict(rule="R5", kind="re", pat=r"&ClusterState::default\(\)", repl="&cluster_state_default()", min=0, why="derive(Default) -> stub"),
    dict(rule="R5", kind="call", pat=r"bincode::serialize", tail=r"\.unwrap_or_default\(\)", repl="bincode_serialize_state({args})", min=0, why="bincode::serialize(..).unwrap_or_default() -> enc stub"),
    dict(rule="R5", kind="re", dotall=True, pat=r"bincode::deserialize\(data\)\.map_err\(\|e\| format!\(\"snapshot decode: \{e\}\"\)\)\?", repl="bincode_deserialize_state(data)?", min=0, why="bincode::deserialize -> dec stub"),
    dict(rule="R2", kind="re", dotall=True, pat=r"self\s*\.state\s*\.write\(\)\s*\.map_err\(\|_\| \"state poisoned\"\.to_string\(\)\)\?", repl="&mut self.state", min=0, why="RwLock write guard -> &mut cell"),
]

UNIT = dict(
    name="c20_snapshot",
    props=["C20"],
    features=["allocator_api"],
    uses=["std::collections::HashMap", "vstd::std_specs::hash::*"],
    prelude=["str_ext.rs", "hashmap_ext.rs"],
    assumptions=[
        "A-BINCODE: bincode::deserialize(bincode::serialize(s)) == s for derive(Serialize, Deserialize) structs whose serde field attributes are symmetric (checked syntactically by the extractor)",
        "A-LOCK/A-SEQ: RwLock<ClusterState> replaced by the value; try_read/try_write are modelled as possibly failing",
        "not executable offline (bincode/tokio missing); the octopii adapter half is decided on extracted regions only",
    ],
    items=[
        dict(kind="lines", file=MD, patterns=[r"^pub type NodeId = \w+;$", r"^pub type TopicName = \w+;$"]),
        dict(kind="struct", file=MD, struct="TopicState", serde_symmetric_check=True),
        dict(kind="struct", file=MD, struct="ClusterState", serde_symmetric_check=True),
        dict(kind="struct", file=MD, struct="Metadata",
             rules=[dict(rule="R15", kind="lit", old="Arc<RwLock<ClusterState>>", new="ClusterState", why="lock cell -> protected value")]),
        dict(kind="model", file="c20_model.rs"),
        dict(kind="fn", file=MD, path="impl StateMachineTrait for Metadata / fn snapshot", impl="Metadata", rules=SNAP_RULES,
             ensures=[("C20:snapshot_is_encoding_of_current_state", "ret@ == enc_state(self.state)")]),
        dict(kind="fn", file=MD, path="impl StateMachineTrait for Metadata / fn restore", impl="Metadata",
             sig_rules=[dict(pat=r"&self", repl="&mut self")], rules=SNAP_RULES,
             ensures=[("C20:restore_installs_exactly_the_decoded_state", "match ret { Ok(_) => dec_state(data@) == Some(final(self).state), Err(_) => dec_state(data@) is None && final(self).state == old(self).state }")]),
        dict(kind="model", file="c20_theorem.rs"),
    ],
)
