# C21: octopii/src/openraft/storage.rs - live truncate / purge of the in-memory log store and the replay of WAL records at start-up.
from specs.units._core import *
ST = "octopii/src/openraft/storage.rs"
TY = [
    dict(rule="R15", kind="re", pat=r"Entry<AppTypeConfig>", repl="EntryG", min=0, why="openraft Entry -> plain-data stand-in (only log_id.index is looked at)"),
    dict(rule="R15", kind="re", pat=r"openraft::Vote<AppTypeConfig>", repl="VoteG", min=0, why="openraft Vote -> stand-in"),
    dict(rule="R15", kind="re", pat=r"LogId<AppTypeConfig>", repl="LogIdG", min=0, why="openraft LogId -> stand-in with the index field"),
]
R = TY + [
    dict(rule="R13", kind="re", pat=r"\.await", repl="", min=0, why="await removed (the store's mutex is held: one task)"),
    dict(rule="R8", kind="re", dotall=True, pat=r"(\w+(?:\s*\.\s*\w+)*?)\s*\.range\(((?:[^()]|\([^()]*\))*?)\.\.\)\s*\.map\(\|\((\w+), _\w*\)\| \*\3\)\s*\.collect::<Vec<_>>\(\)", repl=r"\1.keys_from(\2)", min=0,
         why="range(from..).map(|(k,_)| *k).collect() -> key list stub; the range start expression is kept"),
    dict(rule="R8", kind="re", dotall=True, pat=r"(\w+(?:\s*\.\s*\w+)*?)\s*\.range\(\.\.=((?:[^()]|\([^()]*\))*?)\)\s*\.map\(\|\((\w+), _\w*\)\| \*\3\)\s*\.collect::<Vec<_>>\(\)", repl=r"\1.keys_upto(\2)", min=0,
         why="range(..=upto).map(|(k,_)| *k).collect() -> key list stub; the bound expression is kept"),
    dict(rule="R8", kind="re", pat=r"for key in keys \{", repl="let mut __k: usize = 0; while __k < keys.len() { let key = keys[__k]; __k = __k + 1;", min=0, why="for x in vec (by value, u64) -> indexed while loop"),
    dict(rule="R1", kind="lit", old="assert!(ld.as_ref() <= Some(&log_id));", new="", min=0, why="runtime assertion on the purge order dropped (Option<LogId> ordering is not modelled; a panic here is not C21's subject)"),
    dict(rule="R5", kind="lit", old="log_id.clone()", new="log_id", min=0, why="Copy stand-in"),
]
SIG = [dict(pat=r"async fn", repl="fn", min=0), dict(pat=r"Result<\(\), io::Error>", repl="IoResult<()>", min=0)] + [dict(pat=r["pat"], repl=r["repl"], min=0) for r in TY]
def RM(which, cur="self.log.m@", pre="old(self).log.m@", extra=()):
    op = ">=" if which == "from" else "<="
    return list(extra) + [("", "__k <= keys@.len()"), ("", "keys@ == keys0"),
      ("", "forall|k: u64| keys0.contains(k) <==> (%s.contains_key(k) && k %s log_id.index)" % (pre, op)),
      ("", "minus_keys(%s, %s, keys0, __k as int)" % (cur, pre))]
def BEFORE(pre="old(self).log.m@"):
    return "let ghost keys0 = keys@; proof { lemma_minus_start(%s, keys0); }" % pre
def STEP(cur="self.log.m@", pre="old(self).log.m@"):
    return "proof { lemma_minus_step(%s, m_in, keys0, k_in as int); }" % pre
def START(cur="self.log.m@"):
    return "let ghost m_in = %s; let ghost k_in = __k;" % cur
def DONE(op, cur="self.log.m@", pre="old(self).log.m@"):
    return "proof { lemma_minus_done_%s(%s, %s, keys0, log_id.index); }" % ("from" if op == ">=" else "upto", pre, cur)
UNIT = dict(
    name="c21_replay",
    props=["C21"],
    prelude=[],
    assumptions=[
        "openraft's Entry / LogId / Vote are plain-data stand-ins; BTreeMap<u64, Entry> is a ghost map with the three access patterns the code uses (insert, remove, key lists of a range)",
        "R13: async removed - every function runs with the store's tokio mutex held",
        "bincode decode of a record is an arbitrary Result (every record and every decode failure); octopii cannot be built offline",
    ],
    items=[
        dict(kind="model", file="c21_replay_model.rs"),
        dict(kind="mirror", file=ST, struct="MemLogStoreInner", fields=[("last_purged_log_id", "Option<LogId<AppTypeConfig>>", "Option<LogIdG>"), ("log", "BTreeMap<u64, Entry<AppTypeConfig>>", "LogMap"),
                                                                          ("committed", "Option<LogId<AppTypeConfig>>", "Option<LogIdG>"), ("vote", "Option<openraft::Vote<AppTypeConfig>>", "Option<VoteG>")]),
        dict(kind="struct", file=ST, struct="WalLogRecord", attrs=[], rules=TY),
        dict(kind="fn", file=ST, path="impl MemLogStoreInner / fn truncate", sig_rules=SIG, rules=R,
             ensures=[("C21:live_truncate_removes_exactly_the_entries_from_that_index_on", "ret is Ok && is_truncation(old(self).log.m@, final(self).log.m@, log_id.index)"),
                      ("", "final(self).vote == old(self).vote && final(self).committed == old(self).committed && final(self).last_purged_log_id == old(self).last_purged_log_id")],
             hints=[dict(before_loop=0, text="        " + BEFORE()), dict(loop_body_start=0, text="            " + START()), dict(loop_body_end=0, text="            " + STEP()),
                    dict(after_loop=0, text="        " + DONE(">="))],
             loops={0: dict(kind="while", invariant=RM("from"), decreases="keys@.len() - __k")}),
        dict(kind="fn", file=ST, path="impl MemLogStoreInner / fn purge", sig_rules=SIG, rules=R,
             ensures=[("C21:live_purge_removes_exactly_the_entries_up_to_that_index_and_records_it", "ret is Ok && is_purge(old(self).log.m@, final(self).log.m@, log_id.index) && final(self).last_purged_log_id == Some(log_id)"),
                      ("", "final(self).vote == old(self).vote && final(self).committed == old(self).committed")],
             hints=[dict(before_loop=0, text="            " + BEFORE()), dict(loop_body_start=0, text="                " + START()), dict(loop_body_end=0, text="                " + STEP()),
                    dict(after_loop=0, text="            " + DONE("<="))],
             loops={0: dict(kind="while", invariant=RM("upto"), decreases="keys@.len() - __k")}),
        dict(kind="model", file="c21_replay_model2.rs"),
    ] + [
        dict(kind="fn", file=ST, path="impl RaftLogStorage for WalLogStore / fn %s" % fn, impl="WalLogStore", sig_rules=SIG + [dict(pat=r"&mut self,", repl="&mut self, Ghost(s_init): Ghost<St>,", min=0)],
             rules=R + [
                 dict(rule="R2", kind="lit", old="let mut inner = self.inner.lock();", new="let inner = &mut self.inner;", min=0, why="tokio mutex guard -> &mut field (one task)"),
                 dict(rule="R16", kind="re", pat=r"self\.persist_record\(", repl="persist_record(&mut self.wal, ", why="persist_record -> ghost record list"),
                 dict(rule="R5", kind="lit", old="vote.clone()", new="*vote", min=0, why="Copy stand-in"),
                 dict(rule="R12", kind="re", dotall=True, pat=r"persist_record\(&mut self\.wal, (&WalLogRecord::\w+\([^()]*(?:\([^()]*\))?[^()]*\))\)\s*\}\s*$", repl=r"let ghost rec_g = *\1; let __ret = persist_record(&mut self.wal, \1); proof { if __ret is Ok { lemma_replay_push(old(self).wal.persisted@, rec_g, s_init, st(old(self).inner), st(self.inner)); } } __ret }", why="tail expression bound to a name so that the in-sync lemma can follow it"),
             ],
             requires=[("", "in_sync(*old(self), s_init)")],
             ensures=[("C21:an_acknowledged_%s_is_what_the_next_start_replays" % fn, "ret is Ok ==> in_sync(*final(self), s_init) && final(self).wal.persisted@.len() == old(self).wal.persisted@.len() + 1")])
        for fn in ("truncate", "purge", "save_vote", "save_committed")
    ] + [
        dict(kind="region", file=ST, within="impl WalLogStore / fn recover_from_wal", start="for raw in entries {", end="\n        Ok(())\n    }",
             sig="fn replay(inner: &mut MemLogStoreInner, entries: Vec<Bytes>) -> (ret: Result<(), OctopiiError>)",
             pre="let mut entries = entries; let ghost raws = entries@; let ghost s0 = st(*inner);\n", post="Ok(())",
             rules=R + [
                 dict(rule="R8", kind="lit", old="for raw in entries {", new="let mut __n: usize = 0; while __n < entries.len() { let raw = bytes_take(&mut entries, __n); __n = __n + 1; let ghost s_in = st(*inner);", why="for x in vec (by value) -> indexed while loop taking each element"),
                 dict(rule="R5", kind="re", dotall=True, pat=r"bincode::deserialize\(&raw\)\s*\.map_err\(\|e\| OctopiiError::Wal\(format!\(\"Failed to deserialize WAL record: \{e\}\"\)\)\)\?", repl="(match decode_record(&raw) { Ok(x) => x, Err(_) => return Err(OctopiiError { x: 0 }) })", why="bincode::deserialize(..).map_err(..)? -> arbitrary-Result stub + explicit match"),
                 dict(rule="R8", kind="re", pat=r"for key in keys \{", repl="let mut __k: usize = 0; while __k < keys.len() { let key = keys[__k]; __k = __k + 1;", min=0, why="(same rule as above)"),
             ],
             ensures=[("C21:replaying_the_persisted_records_applies_to_each_the_effect_of_the_live_operation_that_wrote_it", "ret is Ok ==> replayed(decode_all(entries@, entries@.len() as int), st(*old(inner)), st(*final(inner)))")],
             hints=[dict(loop_body_end=0, text="            proof { lemma_replay_push(decode_all(raws, __n - 1), record, s0, s_in, st(*inner)); }"),
                    dict(loop_body_start=1, text="                        " + START("inner.log.m@")),
                    dict(loop_body_end=1, text="                        " + STEP("inner.log.m@", "s_in.log")),
                    dict(loop_body_start=2, text="                        " + START("inner.log.m@")),
                    dict(loop_body_end=2, text="                        " + STEP("inner.log.m@", "s_in.log")),
                    dict(before_loop=1, text="                    " + BEFORE("s_in.log")), dict(after_loop=1, text="                    " + DONE("<=", "inner.log.m@", "s_in.log")),
                    dict(before_loop=2, text="                    " + BEFORE("s_in.log")), dict(after_loop=2, text="                    " + DONE(">=", "inner.log.m@", "s_in.log"))],
             loops={0: dict(kind="while", n_loops=3, expect="decode_record", invariant=[
                        ("", "__n <= entries@.len() && entries@.len() == raws.len() && s0 == st(*old(inner))"),
                        ("", "forall|j: int| __n <= j < raws.len() ==> (#[trigger] entries@[j]).v@ == raws[j].v@"),
                        ("C21:replaying_the_persisted_records_applies_to_each_the_effect_of_the_live_operation_that_wrote_it", "replayed(decode_all(raws, __n as int), s0, st(*inner))")],
                        decreases="raws.len() - __n"),
                    1: dict(kind="while", expect="remove", invariant=RM("upto", "inner.log.m@", "s_in.log", extra=[("", "__n <= entries@.len() && entries@.len() == raws.len() && s0 == st(*old(inner)) && __n >= 1"), ("", "forall|j: int| __n <= j < raws.len() ==> (#[trigger] entries@[j]).v@ == raws[j].v@"), ("", "replayed(decode_all(raws, __n - 1), s0, s_in)"), ("", "decoded(raws[__n - 1].v@) == Some(record)"), ("", "inner.vote == s_in.vote && inner.committed == s_in.committed"), ("", "record == WalLogRecord::Purged(log_id) && inner.last_purged_log_id == s_in.purged")]), decreases="keys@.len() - __k"),
                    2: dict(kind="while", expect="remove", invariant=RM("from", "inner.log.m@", "s_in.log", extra=[("", "__n <= entries@.len() && entries@.len() == raws.len() && s0 == st(*old(inner)) && __n >= 1"), ("", "forall|j: int| __n <= j < raws.len() ==> (#[trigger] entries@[j]).v@ == raws[j].v@"), ("", "replayed(decode_all(raws, __n - 1), s0, s_in)"), ("", "decoded(raws[__n - 1].v@) == Some(record)"), ("", "inner.vote == s_in.vote && inner.committed == s_in.committed"), ("", "record == WalLogRecord::Truncated(log_id) && inner.last_purged_log_id == s_in.purged")]), decreases="keys@.len() - __k")}),
    ],
)
