# C21: octopii/src/openraft/storage.rs - live truncate / purge of the in-memory log store and the replay of WAL records at start-up.
from specs.units._core import *
ST = "octopii/src/openraft/storage.rs"
TY = [
    dict(rule="R15", kind="re", pat=r"Entry<AppTypeConfig>", repl="EntryG", min=0, why="openraft Entry -> plain-data stand-in (only log_id.index is looked at)"),
    dict(rule="R15", kind="re", pat=r"openraft::Vote<AppTypeConfig>", repl="VoteG", min=0, why="openraft Vote -> stand-in"),
    dict(rule="R15", kind="re", pat=r"LogId<AppTypeConfig>", repl="LogIdG", min=0, why="openraft LogId -> stand-in with the index field"),
]
R = TY + [
    dict(rule="R13", kind="re", pat=r"\.await", repl="", min=0, why="await removed (the store's mutex is held: one task)"),
    dict(rule="R8", kind="re", dotall=True, pat=r"(\w+(?:\s*\.\s*\w+)*?)\s*\.range\(((?:[^()]|\([^()]*\))*?)\.\.\)\s*\.map\(\|\((\w+), _\w*\)\| \*\3\)\s*\.collect::<Vec<_>>\(\)", repl=r"\1.keys_from(\2)", min=0,
         why="range(from..).map(|(k,_)| *k).collect() -> key list stub; the range start expression is kept"),
    dict(rule="R8", kind="re", dotall=True, pat=r"(\w+(?:\s*\.\s*\w+)*?)\s*\.range\(\.\.=((?:[^()]|\([^()]*\))*?)\)\s*\.map\(\|\((\w+), _\w*\)\| \*\3\)\s*\.collect::<Vec<_>>\(\)", repl=r"\1.keys_upto(\2)", min=0,
         why="range(..=upto).map(|(k,_)| *k).collect() -> key list stub; the bound expression is kept"),
    dict(rule="R8", kind="re", pat=r"for key in keys \{", repl="let mut __k: usize = 0; while __k < keys.len() { let key = keys[__k]; __k = __k + 1;", min=0, why="for x in vec (by value, u64) -> indexed while loop"),
    dict(rule="R1", kind="lit", old="assert!(ld.as_ref() <= Some(&log_id));", new="", min=0, why="runtime assertion on the purge order dropped (Option<LogId> ordering is not modelled; a panic here is not C21's subject)"),
    dict(rule="R5", kind="lit", old="log_id.clone()", new="log_id", min=0, why="Copy stand-in"),
]
SIG = [dict(pat=r"async fn", repl="fn", min=0), dict(pat=r"Result<\(\), io::Error>", repl="IoResult<()>", min=0)] + [dict(pat=r["pat"], repl=r["repl"], min=0) for r in TY]
def RM(which, cur="self.log.m@", pre="old(self).log.m@", extra=()):
    op = ">=" if which == "from" else "<="
    return list(extra) + [("", "__k <= keys@.len()"), ("", "keys@ == keys0"),
      ("", "forall|k: u64| keys0.contains(k) <==> (%s.contains_key(k) && k %s log_id.index)" % (pre, op)),
      ("", "forall|k: u64| %s.contains_key(k) <==> (%s.contains_key(k) && !(exists|j: int| 0 <= j < __k && keys@[j] == k))" % (cur, pre)),
      ("", "forall|k: u64| %s.contains_key(k) ==> %s[k] == %s[k]" % (cur, cur, pre))]
def DONE(op, cur="self.log.m@", pre="old(self).log.m@"):
    return ('proof { assert(__k == keys0.len()); '
            'assert forall|k: u64| %s.contains_key(k) <==> (%s.contains_key(k) && !keys0.contains(k)) by { '
            'if keys0.contains(k) { let j = choose|j: int| 0 <= j < keys0.len() && keys0[j] == k; assert(0 <= j < __k && keys@[j] == k); } '
            'if exists|j: int| 0 <= j < __k && keys@[j] == k { let j = choose|j: int| 0 <= j < __k && keys@[j] == k; assert(keys0[j] == k); assert(keys0.contains(k)); } } '
            'assert forall|k: u64| %s.contains_key(k) <==> (%s.contains_key(k) && !(k %s log_id.index)) by { assert(keys0.contains(k) <==> (%s.contains_key(k) && k %s log_id.index)); } }' % (cur, pre, cur, pre, op, pre, op))
UNIT = dict(
    name="c21_replay",
    props=["C21"],
    prelude=[],
    assumptions=[
        "openraft's Entry / LogId / Vote are plain-data stand-ins; BTreeMap<u64, Entry> is a ghost map with the three access patterns the code uses (insert, remove, key lists of a range)",
        "R13: async removed - every function runs with the store's tokio mutex held",
        "bincode decode of a record is an arbitrary Result (every record and every decode failure); octopii cannot be built offline",
    ],
    items=[
        dict(kind="model", file="c21_replay_model.rs"),
        dict(kind="mirror", file=ST, struct="MemLogStoreInner", fields=[("last_purged_log_id", "Option<LogId<AppTypeConfig>>", "Option<LogIdG>"), ("log", "BTreeMap<u64, Entry<AppTypeConfig>>", "LogMap"),
                                                                          ("committed", "Option<LogId<AppTypeConfig>>", "Option<LogIdG>"), ("vote", "Option<openraft::Vote<AppTypeConfig>>", "Option<VoteG>")]),
        dict(kind="struct", file=ST, struct="WalLogRecord", attrs=[], rules=TY),
        dict(kind="fn", file=ST, path="impl MemLogStoreInner / fn truncate", sig_rules=SIG, rules=R,
             ensures=[("C21:live_truncate_removes_exactly_the_entries_from_that_index_on", "ret is Ok && is_truncation(old(self).log.m@, final(self).log.m@, log_id.index)"),
                      ("", "final(self).vote == old(self).vote && final(self).committed == old(self).committed && final(self).last_purged_log_id == old(self).last_purged_log_id")],
             hints=[dict(before_loop=0, text="        let ghost keys0 = keys@;"),
                    dict(after_loop=0, text="        " + DONE(">="))],
             loops={0: dict(kind="while", invariant=RM("from"), decreases="keys@.len() - __k")}),
        dict(kind="fn", file=ST, path="impl MemLogStoreInner / fn purge", sig_rules=SIG, rules=R,
             ensures=[("C21:live_purge_removes_exactly_the_entries_up_to_that_index_and_records_it", "ret is Ok && is_purge(old(self).log.m@, final(self).log.m@, log_id.index) && final(self).last_purged_log_id == Some(log_id)"),
                      ("", "final(self).vote == old(self).vote && final(self).committed == old(self).committed")],
             hints=[dict(before_loop=0, text="            let ghost keys0 = keys@;"),
                    dict(after_loop=0, text="            " + DONE("<="))],
             loops={0: dict(kind="while", invariant=RM("upto"), decreases="keys@.len() - __k")}),
        dict(kind="model", file="c21_replay_model2.rs"),
        dict(kind="region", file=ST, within="impl WalLogStore / fn recover_from_wal", start="for raw in entries {", end="\n        Ok(())\n    }",
             sig="fn replay(inner: &mut MemLogStoreInner, entries: Vec<Bytes>) -> (ret: Result<(), OctopiiError>)",
             pre="let mut entries = entries; let ghost raws = entries@; let ghost s0 = st(*inner);\n", post="Ok(())",
             rules=R + [
                 dict(rule="R8", kind="lit", old="for raw in entries {", new="let mut __n: usize = 0; while __n < entries.len() { let raw = bytes_take(&mut entries, __n); __n = __n + 1; let ghost s_in = st(*inner);", why="for x in vec (by value) -> indexed while loop taking each element"),
                 dict(rule="R5", kind="re", dotall=True, pat=r"bincode::deserialize\(&raw\)\s*\.map_err\(\|e\| OctopiiError::Wal\(format!\(\"Failed to deserialize WAL record: \{e\}\"\)\)\)\?", repl="(match decode_record(&raw) { Ok(x) => x, Err(_) => return Err(OctopiiError { x: 0 }) })", why="bincode::deserialize(..).map_err(..)? -> arbitrary-Result stub + explicit match"),
                 dict(rule="R8", kind="re", pat=r"for key in keys \{", repl="let mut __k: usize = 0; while __k < keys.len() { let key = keys[__k]; __k = __k + 1;", min=0, why="(same rule as above)"),
             ],
             ensures=[("C21:replaying_the_persisted_records_applies_to_each_the_effect_of_the_live_operation_that_wrote_it", "ret is Ok ==> replayed(decode_all(entries@, entries@.len() as int), st(*old(inner)), st(*final(inner)))")],
             hints=[dict(loop_body_end=0, text="            proof { lemma_replay_push(decode_all(raws, __n - 1), record, s0, s_in, st(*inner)); }"),
                    dict(loop_body_start=1, text="                        let ghost m_in = inner.log.m@; let ghost k_in = __k; assert(forall|k: u64| m_in.contains_key(k) <==> (s_in.log.contains_key(k) && !(exists|j: int| 0 <= j < k_in && keys@[j] == k)));"),
                    dict(loop_body_end=1, text="                        proof { assert(keys@[k_in as int] == key); assert(inner.log.m@ == m_in.remove(key)); assert forall|k: u64| inner.log.m@.contains_key(k) <==> (s_in.log.contains_key(k) && !(exists|j: int| 0 <= j < __k && keys@[j] == k)) by { if k == key { assert(keys@[k_in as int] == k); assert(exists|j: int| 0 <= j < __k && keys@[j] == k); } else { assert(inner.log.m@.contains_key(k) == m_in.contains_key(k)); if exists|j: int| 0 <= j < __k && keys@[j] == k { let j = choose|j: int| 0 <= j < __k && keys@[j] == k; assert(j != k_in); assert(exists|jj: int| 0 <= jj < k_in && keys@[jj] == k); } if exists|j: int| 0 <= j < k_in && keys@[j] == k { let j = choose|j: int| 0 <= j < k_in && keys@[j] == k; assert(0 <= j < __k && keys@[j] == k); } } } }"),
                    dict(loop_body_start=2, text="                        let ghost m_in = inner.log.m@; let ghost k_in = __k; assert(forall|k: u64| m_in.contains_key(k) <==> (s_in.log.contains_key(k) && !(exists|j: int| 0 <= j < k_in && keys@[j] == k)));"),
                    dict(loop_body_end=2, text="                        proof { assert(keys@[k_in as int] == key); assert(inner.log.m@ == m_in.remove(key)); assert forall|k: u64| inner.log.m@.contains_key(k) <==> (s_in.log.contains_key(k) && !(exists|j: int| 0 <= j < __k && keys@[j] == k)) by { if k == key { assert(keys@[k_in as int] == k); assert(exists|j: int| 0 <= j < __k && keys@[j] == k); } else { assert(inner.log.m@.contains_key(k) == m_in.contains_key(k)); if exists|j: int| 0 <= j < __k && keys@[j] == k { let j = choose|j: int| 0 <= j < __k && keys@[j] == k; assert(j != k_in); assert(exists|jj: int| 0 <= jj < k_in && keys@[jj] == k); } if exists|j: int| 0 <= j < k_in && keys@[j] == k { let j = choose|j: int| 0 <= j < k_in && keys@[j] == k; assert(0 <= j < __k && keys@[j] == k); } } } }"),
                    dict(before_loop=1, text="                    let ghost keys0 = keys@;"), dict(after_loop=1, text="                    " + DONE("<=", "inner.log.m@", "s_in.log")),
                    dict(before_loop=2, text="                    let ghost keys0 = keys@;"), dict(after_loop=2, text="                    " + DONE(">=", "inner.log.m@", "s_in.log"))],
             loops={0: dict(kind="while", n_loops=3, expect="decode_record", invariant=[
                        ("", "__n <= entries@.len() && entries@.len() == raws.len() && s0 == st(*old(inner))"),
                        ("", "forall|j: int| __n <= j < raws.len() ==> (#[trigger] entries@[j]).v@ == raws[j].v@"),
                        ("C21:replaying_the_persisted_records_applies_to_each_the_effect_of_the_live_operation_that_wrote_it", "replayed(decode_all(raws, __n as int), s0, st(*inner))")],
                        decreases="raws.len() - __n"),
                    1: dict(kind="while", expect="remove", invariant=RM("upto", "inner.log.m@", "s_in.log", extra=[("", "__n <= entries@.len() && entries@.len() == raws.len() && s0 == st(*old(inner)) && __n >= 1"), ("", "forall|j: int| __n <= j < raws.len() ==> (#[trigger] entries@[j]).v@ == raws[j].v@"), ("", "replayed(decode_all(raws, __n - 1), s0, s_in)"), ("", "decoded(raws[__n - 1].v@) == Some(record)"), ("", "inner.vote == s_in.vote && inner.committed == s_in.committed"), ("", "record == WalLogRecord::Purged(log_id) && inner.last_purged_log_id == s_in.purged")]), decreases="keys@.len() - __k"),
                    2: dict(kind="while", expect="remove", invariant=RM("from", "inner.log.m@", "s_in.log", extra=[("", "__n <= entries@.len() && entries@.len() == raws.len() && s0 == st(*old(inner)) && __n >= 1"), ("", "forall|j: int| __n <= j < raws.len() ==> (#[trigger] entries@[j]).v@ == raws[j].v@"), ("", "replayed(decode_all(raws, __n - 1), s0, s_in)"), ("", "decoded(raws[__n - 1].v@) == Some(record)"), ("", "inner.vote == s_in.vote && inner.committed == s_in.committed"), ("", "record == WalLogRecord::Truncated(log_id) && inner.last_purged_log_id == s_in.purged")]), decreases="keys@.len() - __k")}),
    ],
)
