# C15 (restart clause), C06: rebuild_topic_entry_counts_after_recovery - per-topic body of the loop + the nested counter.
from specs.units._core import *
from specs.units.batch_read_parse import BLOCK_MIRROR, CONSTS
from specs.units.core_persist import COLINFO_MIRROR

W = RT + "walrus.rs"
BLK = "src/wal/block.rs"
FN = "impl Walrus / fn rebuild_topic_entry_counts_after_recovery"

RULES = [
    dict(rule="R14", kind="lit", old="idx_guard.as_ref()", new="idx_guard", why="region live-in: Option<&WalIndex> (already a shared reference)"),
    dict(rule="R8", kind="re", dotall=True, pat=r"topic_block_entry_counts\s*\.get\(topic\)\s*\.map\(\|v\| v\.iter\(\)\.copied\(\)\.sum\(\)\)\s*\.unwrap_or\(0\)",
         repl="(match topic_block_entry_counts.get(topic) { Some(v) => vec_sum_prefix(v, v.len()), None => 0 })", why="get().map(|v| v.iter().copied().sum()).unwrap_or(0) -> match + verified sum loop"),
    dict(rule="R8", kind="re", dotall=True, pat=r"per_block\s*\.iter\(\)\s*\.take\((\w+)\)\s*\.copied\(\)\s*\.sum::<u64>\(\)", repl=r"vec_sum_prefix(per_block, \1)", why="iter().take(n).copied().sum() -> verified sum loop"),
    dict(rule="R8", kind="re", dotall=True, pat=r"per_block\.get\((\w+)\)\.copied\(\)\.unwrap_or\(0\)", repl=r"vec_get_or0(per_block, \1)", why="get(i).copied().unwrap_or(0) -> verified helper"),
    dict(rule="R8", kind="re", dotall=True, min=0, pat=r"info\s*\.chain\s*\.iter\(\)\s*\.rev\(\)\s*\.position\(\|b\| b\.id == (\w+)\)", repl=r"chain_rev_position_id(&info.chain, \1)", why="iter().rev().position() -> verified loop"),
    dict(rule="R8", kind="re", dotall=True, min=0, pat=r"info\s*\.chain\s*\.iter\(\)\s*\.position\(\|b\| b\.id == (\w+)\)", repl=r"chain_find_id(&info.chain, \1)", why="iter().position() -> verified loop"),
    dict(rule="R8", kind="re", pat=r"info\.chain\.get\((\w+)\)", repl=r"chain_get(&info.chain, \1)", why="Vec::get -> verified helper"),
]

UNIT = dict(
    name="recount",
    props=["C15", "C06"],
    prelude=["core_types.rs", "str_ext.rs", "engine.rs"],
    assumptions=[
        "R14 region: the body of `for (topic, info_arc) in reader_guard.iter()` for one topic; the iteration itself (std HashMap iterator) and the final `*guard = counts` are not in the unit",
        "A-ARITH: a topic's total entry count fits in u64",
        "per_block[i] == entries_in(chain[i], used) is the recovery scan's postcondition (unit recovery_scan)",
    ],
    items=[
        CONSTS, BLOCK_MIRROR, COLINFO_MIRROR,
        dict(kind="struct", file=BLK, struct="Entry"),
        dict(kind="prelude", file="engine_read.rs"),
        dict(kind="model", file="recount_model.rs"),
        dict(kind="stub", impl="Block", sig="pub fn read(&self, in_block_offset: u64) -> (r: IoResult<(Entry, usize)>)", proved_in="unit block_rw",
             ensures=[("", "r matches Ok(p) ==> p.1 == PREFIX_META_SIZE + p.0.data.len() && p.1 < 0x100_0000_0000")]),
        dict(kind="region", file=W, within=FN, start="let total_entries: u64 = topic_block_entry_counts", end="counts.insert(topic.to_string(), total_entries.saturating_sub(consumed_entries));",
             sig="fn recount_one(topic: &str, info: &ColReaderInfo, topic_block_entry_counts: &CountsTable, idx_guard: Option<&WalIndex>) -> (ret: u64)",
             pre="const TAIL_FLAG: u64 = 1u64 << 63;\n", post="total_entries.saturating_sub(consumed_entries)",
             rules=RULES,
             requires=[
                 ("", "topic_block_entry_counts.t@.contains_key(topic@) ==> table_matches(topic_block_entry_counts.t@[topic@], info.chain@) && seq_sum(topic_block_entry_counts.t@[topic@], info.chain.len() as int) <= u64::MAX"),
             ],
             ensures=[
                 ("C15,C06:recount_is_total_minus_consumed_before_cursor",
                  "topic_block_entry_counts.t@.contains_key(topic@) ==> ret as int == recount_spec(topic_block_entry_counts.t@[topic@], info.chain@, match idx_guard { Some(g) => if g.store@.contains_key(topic@) { Some(g.store@[topic@]) } else { None }, None => None })"),
             ]),
    ],
)
