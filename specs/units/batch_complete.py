# Writer::submit_batch_via_io_uring, region "Phase 3": completion checking, rollback, publication (writer.rs ~430-527).  C04, C08.
from specs.units._core import *
from specs.units.batch_read_parse import BLOCK_MIRROR, CONSTS

WRT = RT + "writer.rs"

RULES = [
    dict(rule="R10", kind="lit", old="ring.completion().next()", new="ring.completion_next()", why="io_uring completion queue -> ghost completion sequence"),
    dict(rule="R8", kind="lit", old="for _ in 0..write_plan.len() {", new="for __k in 0..write_plan.len() {", why="anonymous loop index named (needed by the invariant)"),
    dict(rule="R8", kind="re", pat=r"for \((\w+), (\w+), (\w+)\) in write_plan\.iter\(\) \{", repl=r"for __i in 0..write_plan.len() { let (\1, \2, \3) = (&write_plan[__i].0, &write_plan[__i].1, &write_plan[__i].2);", why="for (a,b,c) in v.iter() -> indexed loop"),
    dict(rule="R8", kind="re", pat=r"for block_id in revert_info\.allocated_block_ids\.iter\(\) \{", repl="for __j in 0..revert_info.allocated_block_ids.len() { let block_id = &revert_info.allocated_block_ids[__j];", why="for x in v.iter() -> indexed loop"),
    dict(rule="R8", kind="re", pat=r"(\w+)\.get\((\w+)\)\.map\(\|(\w+)\| \3\.len\(\)\)\.unwrap_or\(0\)", repl=r"(if \2 < \1.len() { \1[\2].len() } else { 0 })", why="v.get(i).map(|b| b.len()).unwrap_or(0) -> conditional index"),
    dict(rule="R5", kind="re", pat=r"HashSet::new\(\)", repl="VxSet::new()", why="HashSet<String> -> ghost-set stand-in"),
    dict(rule="R6", kind="re", pat=r"(\w+)\.zero_range\(", repl=r"\1.zero_range(sys, ", why="Block::zero_range gets the ghost disk"),
    dict(rule="R6", kind="re", pat=r"(\w+)\.mmap\.flush\(\)", repl=r"sys_flush(sys, &\1.mmap)", why="SharedMmap::flush -> ghost-disk stub"),
    dict(rule="R7", kind="re", pat=r"FileStateTracker::set_block_unlocked\(", repl="g.set_block_unlocked(", why="tracker call -> explicit globals"),
] + IOERR_RULES + [
    dict(rule="R8", kind="re", dotall=True, min=0, pat=r"(\w+)\.unwrap_or_else\(\|\| \{\s*(io_err\(IoKind::\w+\))\s*\}\)", repl=r"(match \1 { Some(e) => e, None => \2 })", why="Option::unwrap_or_else(closure) -> match"),
]

UNIT = dict(
    name="batch_complete",
    props=["C04", "C08", "C10"],
    prelude=["core_types.rs", "str_ext.rs", "engine.rs", "sys_model.rs"],
    assumptions=[
        "R10 / A-URING: the kernel side of io_uring is a ghost completion sequence: one completion per submitted write, arbitrary order, arbitrary result codes; a result equal to the buffer length means the bytes are in the file",
        "R14: region = everything of submit_batch_via_io_uring from `// Phase 3` to the end; live-ins: the ring after the pushes, the write plan, the buffers, revert info, offsets",
    ],
    items=[
        CONSTS, BLOCK_MIRROR,
        dict(kind="model", file="uring_model.rs"),
        dict(kind="model", file="batch_complete_model.rs"),
        dict(kind="region", file=WRT, within="impl Writer / fn submit_batch_via_io_uring", start="// Phase 3: Atomic submission", end=None,
             sig="fn batch_complete(ring: &mut RingG, sys: &mut Sys, g: &mut GlobalsW, write_plan: &Vec<(Block, u64, usize)>, batch: &[&[u8]], buffers: &Vec<Vec<u8>>, revert_info: &mut BatchRevertInfo, cur_offset: &mut u64, planning_offset: u64, total_bytes: usize) -> (ret: IoResult<()>)",
             rules=RULES,
             requires=[("", "!old(ring).submitted@"), ("", "buffers.len() == write_plan.len()"),
                       ("", "plan_inside_files(write_plan@, *old(sys))"), ("", "plan_paths_ok(write_plan@)"), ("", "*old(cur_offset) == old(revert_info).original_offset")],
             hints=[
                 dict(loop_body_start=2, text="                        let ghost s_in = *sys;"),
                 dict(loop_body_end=2, text="                        proof { lemma_zero_step(write_plan@, s_in, *sys, __i as int); }"),
                 dict(loop_body_start=5, text="                    let ghost s_in = *sys;"),
                 dict(loop_body_end=5, text="                    proof { lemma_zero_step(write_plan@, s_in, *sys, __i as int); }"),
             ],
             loops={
                 0: dict(kind="for", expect=r"completion_next", n_loops=8, invariant=[
                     ("", "ring.submitted@"), ("", "ring.cqes@.len() == write_plan.len()"), ("", "is_permutation_of_ops(ring.cqes@, write_plan.len() as int)"),
                     ("", "buffers.len() == write_plan.len()"), ("", "*sys == *old(sys)"), ("", "*cur_offset == *old(cur_offset)"), ("", "*revert_info == *old(revert_info)"),
                     ("C04,C08:batch_ok_only_if_every_write_completed_in_full", "all_success ==> ring.taken@ == __k && forall|j: int| 0 <= j < __k ==> (#[trigger] ring.cqes@[j]).1 >= 0 && ring.cqes@[j].1 as int == buffers[ring.cqes@[j].0 as int].len()"),
                 ], ensures=[
                     ("C04,C08:batch_ok_only_if_every_write_completed_in_full", "all_success ==> forall|j: int| 0 <= j < write_plan.len() ==> (#[trigger] ring.cqes@[j]).1 >= 0 && ring.cqes@[j].1 as int == buffers[ring.cqes@[j].0 as int].len()"),
                 ]),
                 1: dict(kind="for", expect=r"sys_flush", n_loops=8, invariant_except_break=[("", "seen_synced(fsynced.s@, *sys)"), ("", "all_success"),
                     ("C10:every_file_a_batch_wrote_to_is_flushed_before_the_batch_is_acknowledged", "plan_synced(write_plan@, *sys, __i as int)")],
                     ensures=[("C10:every_file_a_batch_wrote_to_is_flushed_before_the_batch_is_acknowledged", "all_success ==> plan_synced(write_plan@, *sys, write_plan@.len() as int)")],
                     invariant=[("", "plan_paths_ok(write_plan@)"),
                     ("", "*cur_offset == *old(cur_offset)"), ("", "*revert_info == *old(revert_info)"), ("", "ring.submitted@"), ("", "sys.files == old(sys).files"),
                     ("", "buffers.len() == write_plan.len()"), ("", "plan_inside_files(write_plan@, *sys)"),
                     ("", "all_success ==> forall|j: int| 0 <= j < write_plan.len() ==> (#[trigger] ring.cqes@[j]).1 >= 0 && ring.cqes@[j].1 as int == buffers[ring.cqes@[j].0 as int].len()")]),
                 2: dict(kind="for", expect=r"zero_range", n_loops=8, invariant=[
                     ("", "plan_inside_files(write_plan@, *sys)"), ("", "buffers.len() == write_plan.len()"),
                     ("C04,C08:batch_err_zeroes_every_planned_header", "headers_zeroed(write_plan@, *sys, __i as int)"),
                     ("", "*cur_offset == *old(cur_offset)"), ("", "*revert_info == *old(revert_info)"),
                 ]), 3: dict(kind="for", expect=r"sys_flush", n_loops=8, invariant=[
                     ("", "plan_inside_files(write_plan@, *sys)"), ("", "buffers.len() == write_plan.len()"),
                     ("", "headers_zeroed(write_plan@, *sys, write_plan.len() as int)"),
                     ("", "*cur_offset == *old(cur_offset)"), ("", "*revert_info == *old(revert_info)"),
                 ]), 4: dict(kind="for", expect=r"set_block_unlocked", n_loops=8, invariant=[
                     ("", "headers_zeroed(write_plan@, *sys, write_plan.len() as int)"),
                     ("", "*cur_offset == old(revert_info).original_offset"), ("", "*revert_info == *old(revert_info)"),
                 ]),
                 5: dict(kind="for", expect=r"zero_range", n_loops=8, invariant=[
                     ("", "plan_inside_files(write_plan@, *sys)"), ("", "buffers.len() == write_plan.len()"),
                     ("C04,C08:batch_err_zeroes_every_planned_header", "headers_zeroed(write_plan@, *sys, __i as int)"),
                     ("", "*cur_offset == *old(cur_offset)"), ("", "*revert_info == *old(revert_info)"),
                 ]), 6: dict(kind="for", expect=r"sys_flush", n_loops=8, invariant=[
                     ("", "plan_inside_files(write_plan@, *sys)"), ("", "buffers.len() == write_plan.len()"),
                     ("", "headers_zeroed(write_plan@, *sys, write_plan.len() as int)"),
                     ("", "*cur_offset == *old(cur_offset)"), ("", "*revert_info == *old(revert_info)"),
                 ]), 7: dict(kind="for", expect=r"set_block_unlocked", n_loops=8, invariant=[
                     ("", "headers_zeroed(write_plan@, *sys, write_plan.len() as int)"),
                     ("", "*cur_offset == old(revert_info).original_offset"), ("", "*revert_info == *old(revert_info)"),
                 ]),
             },
             ensures=[
                 ("C04,C08:batch_ok_only_if_every_write_completed_in_full",
                  "ret is Ok ==> final(ring).submitted@ && forall|k: int| 0 <= k < write_plan.len() ==> (#[trigger] final(ring).cqes@[k]).1 >= 0 && final(ring).cqes@[k].1 as int == buffers[final(ring).cqes@[k].0 as int].len()"),
                 ("C04:batch_ok_publishes_the_planned_offset", "ret is Ok ==> *final(cur_offset) == planning_offset"),
                 ("C10:every_file_a_batch_wrote_to_is_flushed_before_the_batch_is_acknowledged", "ret is Ok ==> plan_synced(write_plan@, *final(sys), write_plan@.len() as int)"),
                 ("C04:batch_err_restores_the_offset", "ret is Err ==> *final(cur_offset) == old(revert_info).original_offset"),
                 ("C04,C08:batch_err_zeroes_every_planned_header", "ret is Err ==> headers_zeroed(write_plan@, *final(sys), write_plan.len() as int)"),
             ]),
    ],
)
