# batch_read_for_topic, region 5 "Commit progress" + count decrement (walrus_read.rs ~1112-1205).  C02, C09, C15, C01.
from specs.units._core import *
from specs.units.batch_read_parse import BLOCK_MIRROR, CONSTS
from specs.units.core_persist import COLINFO_MIRROR

W = RT + "walrus.rs"
WR = RT + "walrus_read.rs"
BLK = "src/wal/block.rs"

RULES = [
    dict(rule="R12", kind="re", dotall=True, pat=r"enum PersistTarget \{.*?\n            \}\n", repl="", why="enum declared in the function body hoisted to module level (R12)"),
    dict(rule="R11", kind="closure_inline", name="update_state"),
    dict(rule="R16", kind="re", dotall=True, pat=r"if let Some\(mut info\) = info_guard \{", repl="if guard_held { let info = &mut *info_cell;",
         why="held column guard -> the cell (R16)"),
    dict(rule="R16", kind="re", dotall=True,
         pat=r"let arc = \{\s*let map = self\.reader\.data\.read\(\)\.unwrap\(\);\s*map\.get\(col_name\)\.cloned\(\)\s*\};\s*if let Some\(arc\) = arc \{\s*if let Ok\(mut info\) = arc\.write\(\) \{",
         repl="{ { let info = &mut *info_cell;", why="re-acquire lookup of the column cell -> the cell (R16: the map never removes entries)"),
    dict(rule="R2", kind="lit", old="let info = &mut info;", new="let info = &mut *info;", why="reborrow of the guard"),
] + LOCK_RULES + IOERR_RULES + TO_STRING

ARGS = ("info_cell: &mut ColReaderInfo, guard_held: bool, hold_lock_during_io: bool, col_name: &str, checkpoint: bool, start_offset: Option<u64>, "
        "entries: Vec<Entry>, entries_parsed: u32, saw_tail: bool, chain_len_at_plan: usize, final_block_idx: usize, final_block_offset: u64, "
        "final_tail_block_id: u64, final_tail_offset: u64")

UNIT = dict(
    name="batch_read_commit",
    props=["C02", "C09", "C15", "C01"],
    features=["allocator_api"],
    uses=["std::collections::HashMap", "vstd::std_specs::hash::*"],
    prelude=["core_types.rs", "str_ext.rs", "hashmap_ext.rs", "engine.rs"],
    assumptions=[
        "R14 region cut (live-ins as declared); R11 closure `update_state` inlined at its two call sites; R16 the guard and the re-acquired cell are the same ColReaderInfo; A-SEQ",
        "assumed contracts: decrement_topic_entry_count (proved in core_counts), WalIndex::set (ghost log; durability is C10)",
    ],
    items=[
        CONSTS, BLOCK_MIRROR, COLINFO_MIRROR,
        dict(kind="struct", file=BLK, struct="Entry"),
        dict(kind="struct", file=W, struct="ReadConsistency", attrs=["#[derive(Clone, Copy)]"]),
        dict(kind="struct", file=WR, struct="PersistTarget"),
        dict(kind="prelude", file="engine_read.rs"),
        dict(kind="mirror", file=W, struct="Walrus", fields=[
            ("read_offset_index", "Arc<RwLock<WalIndex>>", "WalIndex"),
            ("topic_entry_counts", "RwLock<HashMap<String, u64>>", "HashMap<String, u64>"),
            ("read_consistency", "ReadConsistency", "ReadConsistency"),
        ]),
        dict(kind="model", file="counts_model_core.rs"),
        dict(kind="model", file="commit_model.rs"),
        dict(kind="region", file=WR, within="impl Walrus / fn batch_read_for_topic", impl="Walrus",
             start="// 5) Commit progress (optional)", end="        Ok(entries)\n    }", include_end=False,
             sig="fn batch_read_commit(&mut self, %s) -> (ret: IoResult<Vec<Entry>>)" % ARGS,
             pre="const TAIL_FLAG: u64 = 1u64 << 63;\n", post="Ok(entries)",
             rules=RULES,
             requires=[("", "obeys_key_model::<String>()"),
                       ("", "hold_lock_during_io == (old(self).read_consistency is StrictlyAtOnce || (checkpoint && start_offset is None))"),
                       ("", "guard_held ==> start_offset is None"),
                       ("", "(hold_lock_during_io && start_offset is None) ==> guard_held")],
             ensures=[
                 ("C02:non_consuming_batch_read_leaves_cursor_index_and_counts_untouched",
                  "(!checkpoint || start_offset is Some) ==> *final(info_cell) == *old(info_cell) && final(self).read_offset_index == old(self).read_offset_index && final(self).topic_entry_counts@ == old(self).topic_entry_counts@"),
                 ("C15:consuming_batch_read_decrements_by_entries_parsed",
                  "(checkpoint && start_offset is None) ==> final(self).topic_entry_counts@ == counts_after_dec(old(self).topic_entry_counts@, col_name@, entries_parsed as u64)"),
                 ("C01:commit_moves_cursor_to_end_of_last_parsed_entry",
                  "(checkpoint && start_offset is None && entries_parsed > 0) ==> committed_cursor(*final(info_cell), saw_tail, chain_len_at_plan, final_block_idx, final_block_offset, final_tail_block_id, final_tail_offset)"),
                 ("C09:strict_batch_read_persists_exactly_the_committed_cursor",
                  "(checkpoint && start_offset is None && entries_parsed > 0 && old(self).read_consistency is StrictlyAtOnce) ==> final(self).read_offset_index.log@.len() == old(self).read_offset_index.log@.len() + 1 && persisted_is_cursor(final(self).read_offset_index.log@.last(), col_name@, *final(info_cell), saw_tail)"),
                 ("C09:at_least_once_batch_read_never_persists", "old(self).read_consistency is AtLeastOnce ==> final(self).read_offset_index == old(self).read_offset_index"),
                 ("C01:nothing_parsed_nothing_committed", "entries_parsed == 0 ==> *final(info_cell) == *old(info_cell) && final(self).read_offset_index == old(self).read_offset_index"),
                 ("C01:returns_the_parsed_entries", "ret matches Ok(v) && v == entries"),
             ]),
    ],
)
