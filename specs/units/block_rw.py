# Block::{write, read, zero_range} (block.rs) against the byte-level entry format. C01 (byte identity), C04, C07, C11, C16.
from specs.units._core import *
from specs.units.batch_read_parse import BLOCK_MIRROR, CONSTS, RKYV_RULES

BLK = "src/wal/block.rs"

RULES = RKYV_RULES + DECODE_CALL_RULES + IOERR_RULES + TO_STRING + [
    dict(rule="R5", kind="re", dotall=True, pat=r"decode_metadata\((\w+)\.as_slice\(\)\)\.ok_or_else\(\|\| \{\s*(io_err\(IoKind::\w+\))\s*\}\)\?",
         repl=r"(match decode_metadata(\1.as_slice()) { Some(m) => m, None => return Err(\2) })", min=0, why="ok_or_else(|| const)? -> explicit match (same control flow)"),
    dict(rule="R6", kind="re", pat=r"self\.mmap\.len\(\)", repl="sys_len(sys, &self.mmap)", min=0, why="SharedMmap::len -> ghost-disk stub"),
    dict(rule="R6", kind="re", pat=r"self\.mmap\.write\(", repl="sys_write(sys, &self.mmap, ", min=0, why="SharedMmap::write -> ghost-disk stub"),
    dict(rule="R6", kind="re", pat=r"self\.mmap\.read\(", repl="sys_read(sys, &self.mmap, ", min=0, why="SharedMmap::read -> ghost-disk stub"),
    dict(rule="R5", kind="re", dotall=True, pat=r"rkyv::to_bytes::<_, 256>\(&new_meta\)\.map_err\(\|e\| \{.*?\}\)\?", repl="(match rkyv_to_bytes_metadata(&new_meta) { Ok(b) => b, Err(_) => return Err(io_err(IoKind::Other)) })", min=0,
         why="rkyv::to_bytes(..).map_err(..)? -> stub + explicit match (same control flow)"),
    dict(rule="R5", kind="re", pat=r"(\w+)\[2\.\.2 \+ (\w+)\.len\(\)\]\.copy_from_slice\(&(\w+)\);", repl=r"slice_copy_into(&mut \1, 2, \3.as_slice());", min=0, why="range copy_from_slice -> stub"),
    dict(rule="R5", kind="re", dotall=True, pat=r"(\w+)\.deserialize_infallible\(\)\.map_err\(\|_\| \{\s*(io_err\(IoKind::\w+\))\s*\}\)\?",
         repl=r"(match \1.deserialize_infallible() { Ok(m) => m, Err(_) => return Err(\2) })", min=0, why="map_err(|_| const)? -> explicit match (same control flow)"),
    dict(rule="R5", kind="re", pat=r"extend_from_slice\(&meta_buffer\)", repl="extend_from_slice(meta_buffer.as_slice())", min=0, why="&Vec -> slice"),
]
SIG_W = [dict(pat=r"&self,", repl="&self, sys: &mut Sys,")] + IOERR_SIG
SIG_R = [dict(pat=r"&self,", repl="&self, sys: &Sys,")] + IOERR_SIG

UNIT = dict(
    name="block_rw",
    props=["C01", "C04", "C07", "C11", "C16"],
    prelude=["core_types.rs", "str_ext.rs", "engine.rs", "sys_model.rs"],
    assumptions=[
        "A-IO (positional writes/reads inside the file are complete), A-RKYV (to_bytes/archived_root round trip), context W for Block::read's unsafe decode",
        "debug_assert! in Block::write is dropped by R1 (it states the caller's obligation, which is the `requires` here)",
    ],
    items=[
        CONSTS, BLOCK_MIRROR,
        dict(kind="struct", file=BLK, struct="Entry"),
        dict(kind="struct", file=BLK, struct="Metadata"),
        dict(kind="prelude", file="rkyv.rs"),
        dict(kind="model", file="rkyv_write.rs"),
        dict(kind="model", file="bytes_model_d.rs"),
        dict(kind="model", file="block_rw_model.rs"),
        CHECKSUM_ITEM, DECODE_ITEM,
        dict(kind="fn", file=BLK, path="impl Block / fn write", sig_rules=SIG_W, rules=RULES,
             hints=[dict(before="        Ok(())\n    }", text="""        proof {
            axiom_rkyv_roundtrip(new_meta);
            lemma_len_prefix(meta_bytes@.len() as usize);
            assert(combined@ =~= meta_buffer@ + data@);
            assert(meta_buffer@.subrange(2, 2 + meta_bytes@.len() as int) =~= meta_bytes@);
            lemma_entry_written(old(sys).files@[self.mmap.file], file_offset as int, meta_buffer@, data@, new_meta, meta_bytes@);
        }""")],
             requires=[("", "old(sys).files@.contains_key(self.mmap.file)"),
                       ("C16,C01:write_stays_inside_the_file", "self.offset + in_block_offset + PREFIX_META_SIZE + data@.len() <= old(sys).files@[self.mmap.file].len()"),
                       ("", "self.offset + in_block_offset + PREFIX_META_SIZE + data@.len() <= 0x7fff_ffff_ffff")],
             ensures=[
                 ("C01,C07:write_ok_produces_a_wellformed_entry_with_this_payload",
                  "ret is Ok ==> entry_written(final(sys).files@[self.mmap.file], self.offset + in_block_offset, data@, owned_by@, next_block_start)"),
                 ("C01,C04:write_touches_only_its_own_byte_range",
                  "ret is Ok ==> final(sys).files@ == old(sys).files@.insert(self.mmap.file, write_at(old(sys).files@[self.mmap.file], self.offset + in_block_offset, final(sys).files@[self.mmap.file].subrange(self.offset + in_block_offset, self.offset + in_block_offset + PREFIX_META_SIZE + data@.len())))"),
                 ("C04:write_err_leaves_disk_unchanged", "ret is Err ==> final(sys).files@ == old(sys).files@"),
             ]),
        dict(kind="fn", file=BLK, path="impl Block / fn read", sig_rules=[dict(pat=r"&self,", repl="&self, sys: &Sys,")] + IOERR_SIG, rules=RULES,
             requires=[("", "sys.files@.contains_key(self.mmap.file)"),
                       ("", "bytes_well_formed_w()"),
                       ("C16,C11:read_header_inside_the_file", "self.offset + in_block_offset + PREFIX_META_SIZE <= sys.files@[self.mmap.file].len()"),
                       ("", "sys.files@[self.mmap.file].len() <= 0x7fff_ffff_ffff")],
             ensures=[
                 ("C01,C11:read_ok_returns_exactly_the_entry_at_that_offset",
                  "ret matches Ok(p) ==> entry_ok_d(sys.files@[self.mmap.file], self.offset + in_block_offset) && p.0.data@ == sys.files@[self.mmap.file].subrange(self.offset + in_block_offset + 256, self.offset + in_block_offset + 256 + entry_size_d(sys.files@[self.mmap.file], self.offset + in_block_offset)) && p.1 == PREFIX_META_SIZE + entry_size_d(sys.files@[self.mmap.file], self.offset + in_block_offset)"),
                 ("C01:read_succeeds_on_every_wellformed_entry", "entry_ok_d(sys.files@[self.mmap.file], self.offset + in_block_offset) ==> ret is Ok"),
             ],
             hints=[dict(after="aligned.extend_from_slice(&meta_buffer[2..2 + meta_len]);",
                         text="        proof { assert(aligned@ =~= sys.files@[self.mmap.file].subrange(self.offset + in_block_offset + 2, self.offset + in_block_offset + 2 + meta_len)); }")]),
        dict(kind="fn", file=BLK, path="impl Block / fn zero_range", sig_rules=SIG_W, rules=RULES,
             requires=[("", "old(sys).files@.contains_key(self.mmap.file)"),
                       ("C16,C04:zero_range_stays_inside_the_file", "self.offset + in_block_offset + size <= old(sys).files@[self.mmap.file].len()"),
                       ("", "self.offset + in_block_offset + size <= 0x7fff_ffff_ffff")],
             ensures=[("C04:zero_range_zeroes_exactly_the_requested_range_of_this_block",
                       "final(sys).files@ == old(sys).files@.insert(self.mmap.file, write_at(old(sys).files@[self.mmap.file], self.offset + in_block_offset, Seq::new(size as nat, |i: int| 0u8)))"),
                      ("C04:zero_range_always_ok", "ret is Ok")],
             hints=[dict(before="            return Ok(());", text="""            proof {
                let d = sys.files@[self.mmap.file];
                assert(write_at(d, self.offset + in_block_offset, Seq::new(0nat, |i: int| 0u8)) =~= d);
                assert(sys.files@.insert(self.mmap.file, d) =~= sys.files@);
            }"""),
                    dict(before="        Ok(())\n    }", text="        proof { assert(zeros@ =~= Seq::new(size as nat, |i: int| 0u8)); }")]),
        dict(kind="model", file="block_rw_theorem.rs"),
        # the same function once more WITHOUT context W: arbitrary (damaged) bytes on disk
        dict(kind="fn", file=BLK, path="impl Block / fn read", name="read_damaged",
             sig="pub fn read_damaged(&self, sys: &Sys, in_block_offset: u64) -> (ret: IoResult<(Entry, usize)>)",
             sig_source_norm="fn read(&self, in_block_offset: u64) -> std::io::Result<(Entry, usize)>",
             rules=RULES,
             requires=[("", "sys.files@.contains_key(self.mmap.file)"),
                       ("", "self.offset + in_block_offset <= 0x7fff_ffff_ffff_ffff"),
                       ("", "sys.files@[self.mmap.file].len() <= 0x7fff_ffff_ffff")],
             ensures=[
                 ("C11:whatever_the_bytes_a_returned_payload_lies_inside_the_file_and_matches_its_checksum",
                  "ret matches Ok(p) ==> entry_ok_d(sys.files@[self.mmap.file], self.offset + in_block_offset) && valid_archive(sys.files@[self.mmap.file].subrange(self.offset + in_block_offset + 2, self.offset + in_block_offset + 2 + meta_len_of(sys.files@[self.mmap.file][self.offset + in_block_offset], sys.files@[self.mmap.file][self.offset + in_block_offset + 1]))) && p.0.data@ == sys.files@[self.mmap.file].subrange(self.offset + in_block_offset + 256, self.offset + in_block_offset + 256 + entry_size_d(sys.files@[self.mmap.file], self.offset + in_block_offset))"),
             ],
             hints=[dict(after="aligned.extend_from_slice(&meta_buffer[2..2 + meta_len]);",
                         text="        proof { assert(aligned@ =~= sys.files@[self.mmap.file].subrange(self.offset + in_block_offset + 2, self.offset + in_block_offset + 2 + meta_len)); }")]),
    ],
)
