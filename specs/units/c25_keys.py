# C25: wal_key / parse_wal_key are inverse; keys are one-to-one.
TYPES = "distributed-walrus/src/controller/types.rs"

# method renames to the trusted extension trait (all optional: whichever std calls the code uses)
def rn(m, vx=None):
    return dict(rule="R9", kind="re", pat=r"\.%s\(" % m, repl=".%s(" % (vx or "vx_" + m), min=0,
                why="str::%s -> VxStr::vx_%s (trusted spec)" % (m, m))

STR_RULES = [
    dict(rule="R9", kind="re", pat=r"\.rsplitn\((\w+),\s*(\"[^\"]*\")\)\s*\.collect::<Vec<_>>\(\)", repl=r".vx_rsplitn_collect(\1, \2)", min=0,
         why="rsplitn(n,p).collect() -> VxStr::vx_rsplitn_collect"),
    dict(rule="R9", kind="re", pat=r"\.splitn\((\w+),\s*(\"[^\"]*\")\)\s*\.collect::<Vec<_>>\(\)", repl=r".vx_splitn_collect(\1, \2)", min=0,
         why="splitn(n,p).collect() -> VxStr::vx_splitn_collect"),
    dict(rule="R9", kind="re", pat=r"\.parse::<u64>\(\)\s*\.ok\(\)", repl=".vx_parse_u64_ok()", min=0, why="parse::<u64>().ok() -> VxStr::vx_parse_u64_ok"),
    rn("strip_prefix"), rn("strip_suffix"), rn("starts_with"), rn("ends_with"), rn("contains"),
    rn("trim_start_matches"), rn("split_once"), rn("rsplit_once"), rn("to_string"), rn("to_owned", "vx_to_string"),
]

UNIT = dict(
    name="c25_keys",
    props=["C25"],
    prelude=["str_ext.rs"],
    model=["c25_model.rs"],
    assumptions=[
        "A-STD: str::{rsplitn,splitn,split_once,rsplit_once,strip_prefix,strip_suffix,starts_with,trim_start_matches,parse::<u64>,to_string} behave as specified over Seq<char> in specs/prelude/str_ext.rs",
        "format!(\"t_{}_s_{}\", a, b) concatenates \"t_\", a, \"_s_\" and the canonical decimal digits of b; parse::<u64> inverts canonical decimal digits (axioms axiom_dec_digits, axiom_parse_dec_digits)",
    ],
    items=[
        dict(kind="fn", file=TYPES, path="fn wal_key",
             rules=[dict(rule="R9", kind="re", pat=r'format!\(\s*"t_\{\}_s_\{\}"\s*,\s*', repl="format_t_s(", why='format!("t_{}_s_{}", ..) -> stub')],
             ensures=[("C25:wal_key_has_specified_format", "ret@ == key_spec(topic@, segment)")]),
        dict(kind="fn", file=TYPES, path="fn parse_wal_key", rules=STR_RULES,
             proof_prologue="broadcast use lemma_last_occ_unique, lemma_first_occ_unique, lemma_last_occ_occurs, lemma_first_occ_occurs; proof { reveal_strlit(\"_s_\"); reveal_strlit(\"t_\"); assert(\"_s_\"@ =~= sep()); assert(\"t_\"@ =~= seq!['t', '_']); lemma_decode_ready(wal_key@); }",
             ensures=[("C25:decode_inverts_encode",
                       "forall|t: Seq<char>, n: u64| wal_key@ == #[trigger] key_spec(t, n) ==> (ret matches Some(p) && p.0@ == t && p.1 == n)")]),
    ],
    post=["c25_theorem.rs"],
)
