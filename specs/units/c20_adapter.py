# C20, adapter half: what MemStateMachine::build_snapshot (octopii/src/openraft/storage.rs) puts into a snapshot.
ST = "octopii/src/openraft/storage.rs"
UNIT = dict(
    name="c20_adapter",
    props=["C20"],
    model=["c20_adapter_model.rs"],
    assumptions=[
        "R13/R2: tokio RwLock guards elided, .await removed; R14: region = the statements of build_snapshot that produce the snapshot bytes",
        "octopii cannot be built offline: a violation here has no executed counterexample",
    ],
    items=[
        dict(kind="region", file=ST, within="impl RaftSnapshotBuilder for Arc / fn build_snapshot",
             start="let state_machine = self.state_machine.read().await;", end="let last_applied_log = state_machine.last_applied_log;",
             sig="fn build_snapshot_data(this: &MemStateMachine) -> (ret: Result<Vec<u8>, IoE>)", post="Ok(data)",
             rules=[
                 dict(rule="R13", kind="lit", old="self.state_machine.read().await", new="&this.state_machine", why="tokio RwLock read guard -> &field; await removed"),
                 dict(rule="R5", kind="re", dotall=True, pat=r"bincode::serialize\(&state_machine\.data\)\s*\.map_err\(\|e\| io::Error::new\(io::ErrorKind::InvalidData, e\)\)\?",
                      repl="bincode_serialize_kv(&state_machine.data)?", why="bincode::serialize(..).map_err(..)? -> stub"),
                 dict(rule="R3", kind="re", pat=r"\bself\.", repl="this.", min=0, why="receiver is the explicit parameter of the region"),
             ],
             ensures=[("C20:adapter_snapshot_carries_the_application_state", "ret matches Ok(d) ==> d@ == app_snapshot_bytes(this.sm)")]),
    ],
)
