# Writer::submit_batch_via_io_uring, phases 1-2 (writer.rs): building one buffer (header + payload) and one write operation per
# plan element.  C04 (rejections / no panic), C16 + C01 (the bytes are the bytes Block::write would write), C08.
from specs.units._core import *
from specs.units.batch_read_parse import BLOCK_MIRROR, CONSTS
from specs.units.block_rw import RULES as BRW_RULES

WRT = RT + "writer.rs"
BLK = "src/wal/block.rs"
RULES = [
    dict(rule="R8", kind="re", pat=r"for \((\w+), (\w+), (\w+)\) in write_plan\.iter\(\) \{", repl=r"for __i in 0..write_plan.len() { let (\1, \2, \3) = (&write_plan[__i].0, &write_plan[__i].1, &write_plan[__i].2);", why="for (a,b,c) in v.iter() -> indexed loop"),
    dict(rule="R8", kind="re", pat=r"for block_id in revert_info\.allocated_block_ids\.iter\(\) \{", repl="for __j in 0..revert_info.allocated_block_ids.len() { let block_id = &revert_info.allocated_block_ids[__j];", why="for x in v.iter() -> indexed loop"),
    dict(rule="R16", kind="lit", old="self.col.to_string()", new="col.vx_to_string()", why="field passed explicitly"),
    dict(rule="R7", kind="re", pat=r"FileStateTracker::set_block_unlocked\(", repl="g.set_block_unlocked(", why="tracker call -> explicit globals"),
    dict(rule="R10", kind="re", pat=r"([\w\[\]]+)\.mmap\.storage\(\)\.as_fd\(\)", repl=r"mmap_fd(&\1.mmap)", why="storage().as_fd() -> ghost descriptor naming that block's file"),
    dict(rule="R10", kind="lit", old="io_uring::types::Fd(fd_backend.file().as_raw_fd())", new="fd_backend", why="raw fd wrapper -> the ghost descriptor itself"),
    dict(rule="R10", kind="re", dotall=True, pat=r"io_uring::opcode::Write::new\(fd, combined\.as_ptr\(\), combined\.len\(\) as u32\)\s*\.offset\(file_offset\)\s*\.build\(\)\s*\.user_data\(\*data_idx as u64\);",
         repl="write_op_new(fd, &combined, combined.len() as u32, file_offset, *data_idx as u64);", why="Write::new(fd, ptr, len).offset(o).build().user_data(u) -> ghost write op carrying the buffer's contents"),
] + BRW_RULES + [
    dict(rule="R10", kind="re", dotall=True, pat=r"unsafe \{\s*ring\.submission\(\)\.push\(&write_op\)\.map_err\(\|e\| \{\s*io_err\(IoKind::Other\)\s*\}\)\?;\s*\}",
         repl="match ring.push(&write_op) { Ok(_) => {}, Err(_) => return Err(io_err(IoKind::Other)) }", why="unsafe submission push -> ghost ring"),
    dict(rule="R5", kind="re", pat=r"extend_from_slice\(&meta_buffer\)", repl="extend_from_slice(meta_buffer.as_slice())", min=0, why="&Vec -> slice"),
]
PLAN_REQ = "forall|k: int| 0 <= k < write_plan@.len() ==> (#[trigger] write_plan@[k]).2 < batch@.len() && write_plan@[k].0.offset + write_plan@[k].0.limit <= 0x7fff_ffff_ffff && write_plan@[k].1 <= write_plan@[k].0.limit && batch@[write_plan@[k].2 as int]@.len() <= 0x4000_0000"
UNIT = dict(
    name="batch_submit",
    props=["C04", "C16", "C01", "C08", "C11"],
    implicit_props=["C04", "C16", "C01", "C08"],  # the properties every obligation of the unit counts for; the others only through labelled clauses
    prelude=["core_types.rs", "str_ext.rs", "engine.rs", "sys_model.rs"],
    assumptions=[
        "R14 region: submit_batch_via_io_uring from `let mut buffers` to `// Phase 3` (phase 3 is unit batch_complete); ring creation is outside",
        "R10 / A-URING-BUF: a write operation writes the contents its buffer has when it is built (the buffer is kept, unchanged, in `buffers` until the completions are reaped)",
        "A-RKYV: to_bytes(meta) = spec_meta_bytes(meta), at least one byte",
    ],
    items=[
        CONSTS, BLOCK_MIRROR,
        dict(kind="struct", file=BLK, struct="Metadata"),
        dict(kind="prelude", file="rkyv.rs"),
        dict(kind="model", file="rkyv_write.rs"),
        dict(kind="model", file="bytes_model_d.rs"),
        dict(kind="model", file="block_rw_model.rs"),
        dict(kind="model", file="uring_write_model.rs"),
        CHECKSUM_ITEM,
        dict(kind="region", file=WRT, within="impl Writer / fn submit_batch_via_io_uring", start="let mut buffers: Vec<Vec<u8>> = Vec::new();", end="debug_print!(\n            \"[batch] submitting {} operations via io_uring\"",
             sig="fn batch_submit(ring: &mut RingW, g: &mut GlobalsW, col: &String, write_plan: &Vec<(Block, u64, usize)>, batch: &[&[u8]], revert_info: &mut BatchRevertInfo, cur_offset: &mut u64) -> (ret: IoResult<Vec<Vec<u8>>>)",
             post="Ok(buffers)",
             rules=RULES,
             requires=[("", "old(ring).subs@.len() == 0"), ("", PLAN_REQ)],
             ensures=[
                 ("C16,C01:every_submitted_write_puts_at_its_planned_position_the_bytes_Block_write_would_put_there",
                  "ret matches Ok(b) ==> final(ring).subs@.len() == write_plan@.len() && b@.len() == write_plan@.len() && forall|k: int| 0 <= k < write_plan@.len() ==> op_matches(#[trigger] final(ring).subs@[k], write_plan@[k], batch@[write_plan@[k].2 as int]@, col@) && b@[k]@ == final(ring).subs@[k].bytes@"),
                 ("C04:a_batch_that_cannot_be_prepared_restores_the_offset", "ret is Err ==> *final(cur_offset) == *old(cur_offset) || *final(cur_offset) == old(revert_info).original_offset"),
             ],
             loops={
                 0: dict(kind="for", n_loops=3, expect="write_op_new", invariant=[
                     ("", PLAN_REQ), ("", "*cur_offset == *old(cur_offset) && *revert_info == *old(revert_info)"),
                     ("", "ring.subs@.len() == __i && buffers@.len() == __i"),
                     ("C16,C01:every_submitted_write_puts_at_its_planned_position_the_bytes_Block_write_would_put_there",
                      "forall|k: int| 0 <= k < __i ==> op_matches(#[trigger] ring.subs@[k], write_plan@[k], batch@[write_plan@[k].2 as int]@, col@) && buffers@[k]@ == ring.subs@[k].bytes@"),
                 ]),
                 1: dict(kind="for", expect="set_block_unlocked", invariant=[("", "*cur_offset == old(revert_info).original_offset && *revert_info == *old(revert_info)")]),
                 2: dict(kind="for", expect="set_block_unlocked", invariant=[("", "*cur_offset == old(revert_info).original_offset && *revert_info == *old(revert_info)")]),
             },
             hints=[dict(before="            let file_offset = blk.offset + offset;", text="""            proof {
                axiom_rkyv_roundtrip(new_meta);
                lemma_len_prefix(meta_bytes@.len() as usize);
                assert(combined@ =~= meta_buffer@ + data@);
                assert(combined@.subrange(0, 256) =~= meta_buffer@);
                assert(combined@.subrange(256, 256 + data@.len() as int) =~= data@);
                assert(meta_buffer@.subrange(2, 2 + meta_bytes@.len() as int) =~= meta_bytes@);
            }""")]),
    ],
)
