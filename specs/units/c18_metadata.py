# C18: Metadata::apply keeps an immutable, contiguous segment history.
MD = "distributed-walrus/src/metadata.rs"
DROP_SERDE = [dict(rule="R15", kind="re", pat=r"(?m)^\s*#\[serde\(default\)\]\s*\n", repl="", min=0, why="serde attribute dropped from struct mirror")]

ENTRY_RULES = [
    dict(rule="R8e", kind="call", pat=r"(\w+(?:\.\w+)*)\.entry\(([^()]*)\)\s*\.or_insert_with", repl="hashmap_entry_or_insert(&mut {m1}, {m2}, {args})",
         args_sub=(r"^\s*\|\|\s*", ""), min=0, why="entry(k).or_insert_with(|| v) -> eager stub (closure body is a pure constructor)"),
    dict(rule="R8e", kind="call", pat=r"(\w+(?:\.\w+)*)\.entry\(([^()]*)\)\s*\.or_insert", repl="hashmap_entry_or_insert(&mut {m1}, {m2}, {args})",
         min=0, why="entry(k).or_insert(v) -> stub"),
]

APPLY_RULES = ENTRY_RULES + [
    dict(rule="R5", kind="re", dotall=True,
         pat=r"bincode::deserialize\(command\)\s*\.map_err\(\|e\| format!\(\"decode cmd: \{e\}\"\)\)\?",
         repl="bincode_deserialize_cmd(command)?", why="bincode::deserialize -> arbitrary-Result stub"),
    dict(rule="R2", kind="re", dotall=True,
         pat=r"self\s*\.state\s*\.write\(\)\s*\.map_err\(\|_\| \"state poisoned\"\.to_string\(\)\)\?",
         repl="&mut self.state", why="RwLock write guard -> &mut of the protected cell (SEQ: locks exclude, never poison)"),
    dict(rule="R5", kind="re", pat=r'Bytes::from_static\(b("[^"]*")\)', repl=r"bytes_from_static(\1)", why="Bytes::from_static -> stub"),
    dict(rule="R9", kind="re", pat=r'("[^"]*")\.into\(\)', repl=r"\1.vx_to_string()", min=0, why="&str.into() -> String"),
]

UNIT = dict(
    name="c18_metadata",
    props=["C18"],
    features=["allocator_api"],
    uses=["std::collections::HashMap", "vstd::std_specs::hash::*"],
    prelude=["str_ext.rs", "hashmap_ext.rs"],
    assumptions=[
        "A-LOCK/A-SEQ: RwLock<ClusterState> is replaced by the protected value; apply runs without interference",
        "A-BINCODE: bincode::deserialize returns an arbitrary Result<MetadataCmd,String> (so every command and every decode failure is covered)",
        "A-STD: vstd HashMap model (obeys_key_model for String/u64) + HashMap::get_mut spec in specs/prelude/hashmap_ext.rs",
        "crate not buildable offline: violations here carry no executed counterexample unless the serde/bincode shim harness reproduces them",
    ],
    items=[
        dict(kind="lines", file=MD, patterns=[r"^pub type NodeId = \w+;$", r"^pub type TopicName = \w+;$"]),
        dict(kind="struct", file=MD, struct="TopicState", rules=DROP_SERDE),
        dict(kind="struct", file=MD, struct="ClusterState", rules=DROP_SERDE),
        dict(kind="struct", file=MD, struct="MetadataCmd"),
        dict(kind="struct", file=MD, struct="Metadata",
             rules=[dict(rule="R15", kind="lit", old="Arc<RwLock<ClusterState>>", new="ClusterState", why="lock cell -> protected value")]),
        dict(kind="model", file="c18_model.rs"),
        dict(kind="fn", file=MD, path="impl StateMachineTrait for Metadata / fn apply", impl="Metadata",
             sig_rules=[dict(pat=r"&self", repl="&mut self")],
             rules=APPLY_RULES,
             hints=[dict(before='return Ok(bytes_from_static("ROLLED"));',
                         text="                    proof { lemma_rollover(old(self).state.topics@[name], *topic_state, sealed_segment_entry_count, new_leader); }")],
             requires=[("C18:pre_state_inv", "state_inv(old(self).state)"),
                       ("C18:pre_key_model", "obeys_key_model::<String>()"),
                       ("C18:assume_segment_numbers_below_u64_max", "forall|name: String| #[trigger] old(self).state.topics@.contains_key(name) ==> old(self).state.topics@[name].current_segment < u64::MAX")],
             ensures=[("C18:apply_preserves_segment_invariant", "state_inv(final(self).state)"),
                      ("C18:topics_never_removed", "forall|name: String| old(self).state.topics@.contains_key(name) ==> #[trigger] final(self).state.topics@.contains_key(name)"),
                      ("C18:sealed_history_immutable", "forall|name: String| #[trigger] old(self).state.topics@.contains_key(name) ==> history_preserved(old(self).state.topics@[name], final(self).state.topics@[name])"),
                      ("C18:error_leaves_topics_unchanged", "ret is Err ==> final(self).state.topics@ == old(self).state.topics@"),
                      ]),
    ],
)
