# Walrus::startup_chore, per-file part of the recovery scan (walrus.rs): which 10 MiB units become chain blocks, with what
# extent, owner, id and order.  C06, C07, C11, C01.
from specs.units._core import *
from specs.units.batch_read_parse import BLOCK_MIRROR, RKYV_RULES

WAL = RT + "walrus.rs"
CFG = "src/wal/config.rs"
BLK = "src/wal/block.rs"
FN = "impl Walrus / fn startup_chore"

RULES = RKYV_RULES + [
    dict(rule="R5", kind="lit", old="crate::wal::block::decode_metadata(", new="decode_metadata(", why="path prefix dropped"),
] + DECODE_CALL_RULES + [
    dict(rule="R5", kind="lit", old="MAX_FILE_SIZE.min(mmap.len() as u64)", new="(if MAX_FILE_SIZE <= sys_len(sys, &mmap) as u64 { MAX_FILE_SIZE } else { sys_len(sys, &mmap) as u64 })", why="u64::min -> conditional; SharedMmap::len -> ghost-disk stub"),
    dict(rule="R6", kind="re", dotall=True, pat=r"let mut probe = \[0u8; 8\];\s*mmap\.read\(block_offset as usize, &mut probe\);", repl="let probe = sys_read8(sys, &mmap, block_offset as usize);", why="8-byte probe read -> ghost-disk stub returning the array"),
    dict(rule="R8", kind="lit", old="probe.iter().all(|&b| b == 0)", new="all_zero8(&probe)", why="iter().all(|&b| b == 0) -> stub"),
    dict(rule="R6", kind="re", pat=r"mmap\.read\(", repl="sys_read(sys, &mmap, ", why="SharedMmap::read -> ghost-disk stub"),
    dict(rule="R6", kind="re", pat=r"block_stub\.read\(", repl="block_stub.read(sys, ", why="Block::read gets the ghost disk"),
    dict(rule="R7", kind="lit", old="BlockStateTracker::register_block(", new="g.register_block(", why="tracker call -> explicit ghost log"),
    dict(rule="R7", kind="lit", old="FileStateTracker::add_block_to_file_state(", new="g.add_block_to_file_state(", why="tracker call -> explicit ghost log"),
    dict(rule="R9", kind="lit", old="!col_name.is_empty()", new="!string_is_empty(&col_name)", why="String::is_empty -> stub"),
    dict(rule="R16", kind="lit", old="self.reader.append_block_to_chain(&col_name, block.clone())", new="reader.append_block_to_chain(col_name.as_str(), block.clone())", why="field passed explicitly"),
    dict(rule="R8e", kind="re", dotall=True, pat=r"topic_block_entry_counts\s*\.entry\(col_name\.clone\(\)\)\s*\.or_default\(\)\s*\.push\(entries_in_block\);", repl="counts.push_for(col_name.clone(), entries_in_block);", why="entry().or_default().push() -> ghost log"),
] + IOERR_RULES

D = "sys.files@[mmap.file]"
FROM = "old(reader).chain_log@.len() as int"
INV = [
    ("", "sys.files@.contains_key(mmap.file) && %s.len() <= 0x7fff_ffff_ffff" % D),
    ("", "scan_end <= %s.len() && scan_end <= MAX_FILE_SIZE" % D),
    ("", "block_offset as int % UNIT == 0 && block_offset <= scan_end"),
    ("", "next_block_id + zeroed_units == next_block_id_in + starts.len() && next_block_id_in < 0x1000_0000_0000_0000 && starts.len() <= block_offset as int / 256"),
    ("", "reader.chain_log@.len() >= old(reader).chain_log@.len() && reader.chain_log@.subrange(0, %s) =~= old(reader).chain_log@" % FROM),
    ("", "path_ok(%s, starts, block_offset as int, scan_end as int)" % D),
    ("", "forall|i: int| %s <= i < reader.chain_log@.len() ==> (#[trigger] reader.chain_log@[i]).1.offset < block_offset" % FROM),
    ("C06,C07,C09:recovered_blocks_are_exactly_the_visited_units_with_entries_with_their_size_extent_owner_and_id", "log_sound(reader.chain_log@, %s, %s, mmap.file, next_block_id_in as int, starts, scan_end as int)" % (FROM, D)),
    ("C01,C06:recovered_blocks_are_in_file_order", "log_ordered(reader.chain_log@, %s)" % FROM),
    ("C09,C06,C13:every_recovered_block_id_is_below_the_next_id_handed_back", "forall|i: int| %s <= i < reader.chain_log@.len() ==> ((#[trigger] reader.chain_log@[i]).1.id as int) < next_block_id as int" % FROM),
    ("C06,C07,C08:no_visited_unit_with_entries_is_passed_over", "log_complete(reader.chain_log@, %s, %s, starts, scan_end as int)" % (FROM, D)),
]
_A = "log_in, reader.chain_log@, %s, %s, mmap.file" % (FROM, D)
VISIT = ("assert(visit_step(log_in, reader.chain_log@, %s, mmap.file, next_block_id_in as int + st_in.len(), bo, scan_end as int)); " % D
         + "lemma_visit_path(%s, st_in, bo, scan_end as int); " % D
         + "lemma_visit_sound(%s, next_block_id_in as int, st_in, bo, scan_end as int); " % _A
         + "lemma_visit_complete(%s, next_block_id_in as int + st_in.len(), st_in, bo, scan_end as int); " % _A
         + "lemma_visit_ordered(%s, next_block_id_in as int + st_in.len(), bo, scan_end as int, step_of(%s, bo, scan_end as int)); " % (_A, D)
         + "starts = st_in.push(bo);")
UNIT = dict(
    name="recovery_scan",
    props=["C06", "C07", "C11", "C01", "C09", "C08", "C04"],
    implicit_props=["C06", "C07", "C11", "C01", "C09", "C08"],  # the properties every obligation of the unit counts for; the others only through labelled clauses
    prelude=["core_types.rs", "str_ext.rs", "engine.rs", "sys_model.rs"],
    assumptions=[
        "R14 region: the body of `for file_path in files.iter()` from `let mut block_offset` on, for one file; directory listing, file order (sort), mmap opening, the count rebuild and cursor hydration are other code",
        "assumed contracts: Block::read (unit block_rw, total: arbitrary bytes), tracker calls and the per-topic count table as ghost logs",
        "A-SEQ: nobody writes the file during the scan; A-ARITH; block ids start below 2^60",
        "the ghost sequence `starts` (positions the scan visits) is maintained by hints; the contract is relative to it: which positions are visited is fixed by step_of (zeroed / implausible units: one unit; blocks: their recorded size)",
    ],
    items=[
        dict(kind="lines", file=CFG, patterns=[r"^pub const PREFIX_META_SIZE: usize = \d+;$", r"^pub\(crate\) const DEFAULT_BLOCK_SIZE: u64 = 10 \* 1024 \* 1024;.*$", r"^pub\(crate\) const BLOCKS_PER_FILE: u64 = \d+;$",
                                               r"^pub\(crate\) const MAX_FILE_SIZE: u64 = DEFAULT_BLOCK_SIZE \* BLOCKS_PER_FILE;$"]),
        BLOCK_MIRROR,
        dict(kind="struct", file=BLK, struct="Entry"),
        dict(kind="struct", file=BLK, struct="Metadata"),
        dict(kind="prelude", file="rkyv.rs"),
        DECODE_ITEM,
        dict(kind="model", file="bytes_model_d.rs"),
        dict(kind="model", file="recovery_model.rs"),
        dict(kind="region", file=WAL, within=FN, start="let mut block_offset: u64 = 0;", end="\n        }\n\n        self.rebuild_topic_entry_counts_after_recovery",
             sig="fn scan_file(sys: &Sys, mmap: &MmapH, file_path: &String, next_block_id_in: usize, reader: &mut ReaderH, g: &mut TrackersH, counts: &mut CountsT) -> (ret: (usize, Ghost<int>, Ghost<Seq<int>>, Ghost<int>))",
             pre="let mut next_block_id = next_block_id_in;\n", post="(next_block_id, Ghost(block_offset as int), Ghost(starts), Ghost(scan_end as int))",
             rules=RULES,
             requires=[("", "sys.files@.contains_key(mmap.file) && %s.len() <= 0x7fff_ffff_ffff" % D), ("", "next_block_id_in < 0x1000_0000_0000_0000")],
             ensures=[
                 ("", "ret.3@ <= %s.len() && ret.3@ <= MAX_FILE_SIZE && (ret.3@ == %s.len() || ret.3@ == MAX_FILE_SIZE)" % (D, D)),
                 ("C06,C07:the_scan_visits_the_file_from_its_start_in_steps_of_one_unit_or_one_recorded_block_size", "path_ok(%s, ret.2@, ret.1@, ret.3@)" % D),
                 ("C06,C07,C09:recovered_blocks_are_exactly_the_visited_units_with_entries_with_their_size_extent_owner_and_id", "log_sound(final(reader).chain_log@, %s, %s, mmap.file, next_block_id_in as int, ret.2@, ret.3@)" % (FROM, D)),
                 ("C01,C06:recovered_blocks_are_in_file_order", "log_ordered(final(reader).chain_log@, %s)" % FROM),
                 ("C06,C07,C08:no_visited_unit_with_entries_is_passed_over", "log_complete(final(reader).chain_log@, %s, %s, ret.2@, ret.3@)" % (FROM, D)),
                 ("C06,C07,C08:the_scan_ends_only_at_the_end_of_the_file_or_at_a_damaged_unit", "ret.1@ %% UNIT == 0 && (ret.1@ + UNIT > ret.3@ || stop_unit(%s, ret.1@, ret.3@))" % D),
                 ("C09,C06,C13:every_recovered_block_id_is_below_the_next_id_handed_back", "forall|i: int| %s <= i < final(reader).chain_log@.len() ==> ((#[trigger] final(reader).chain_log@[i]).1.id as int) < ret.0 as int" % FROM),
                 ("C04,C06:earlier_chain_entries_are_kept", "final(reader).chain_log@.len() >= old(reader).chain_log@.len() && final(reader).chain_log@.subrange(0, %s) =~= old(reader).chain_log@" % FROM),
             ],
             hints=[
                 dict(before_loop=0, text="            let ghost mut starts: Seq<int> = Seq::empty(); proof { lemma_scan_init(reader.chain_log@, %s, mmap.file, next_block_id_in as int, scan_end as int); }" % D),
                 dict(loop_body_start=0, text="                let ghost log_in = reader.chain_log@; let ghost bo = block_offset as int; let ghost st_in = starts;"),
                 dict(before="                    continue;", text="                    proof { %s }" % VISIT),
                 dict(loop_body_end=0, text="                proof { lemma_mod_add(bo, block_limit as int); %s }" % VISIT),
                 dict(after="let probe = sys_read8(sys, &mmap, block_offset as usize);", text="                proof { lemma_probe(%s, block_offset as int, probe@); }" % D),
                 dict(after="aligned.extend_from_slice(&meta_buf[2..2 + meta_len]);", text="                proof { assert(aligned@ =~= hdr_bytes(%s, block_offset as int)); }" % D),
             ],
             loops={
                 0: dict(kind="while", invariant=INV, decreases="scan_end - block_offset",
                         ensures=[("C06,C07,C08:the_scan_ends_only_at_the_end_of_the_file_or_at_a_damaged_unit", "block_offset + DEFAULT_BLOCK_SIZE > scan_end || stop_unit(%s, block_offset as int, scan_end as int)" % D)]),
                 1: dict(kind="loop", invariant=[
                     ("", "sys.files@.contains_key(mmap.file) && %s.len() <= 0x7fff_ffff_ffff" % D),
                     ("", "block_stub.offset == block_offset && block_stub.mmap == *mmap && block_offset <= 0x4000_0000 && block_limit <= 0x4000_0000 && block_limit == limit_of(%s, block_offset as int, scan_end as int)" % D),
                     ("", "in_block_off == used && entries_in_block <= used / 256"),
                     ("C06,C07,C08:extent_of_a_block_is_its_run_of_readable_entries", "extent(%s, block_offset as int, 0, block_limit as int) == (extent(%s, block_offset as int, used as int, block_limit as int).0, extent(%s, block_offset as int, used as int, block_limit as int).1 + entries_in_block as nat)" % (D, D, D)),
                 ], ensures=[("C06,C07,C08:extent_of_a_block_is_its_run_of_readable_entries", "used as int == extent(%s, block_offset as int, 0, block_limit as int).0 && entries_in_block as nat == extent(%s, block_offset as int, 0, block_limit as int).1" % (D, D))],
                    invariant_except_break=[("", "used < block_limit")], decreases="block_limit - in_block_off"),
             }),
        dict(kind="region", file=WAL, within=FN, start="// enqueue deletion checks", end=None,
             sig="fn startup_tail(allocator: &mut AllocFF, seen_files: SeenH, next_block_id: usize, g: &mut TrackersH) -> (ret: IoResult<()>)",
             rules=[
                 dict(rule="R8", kind="re", dotall=True, pat=r"for f in seen_files\.into_iter\(\) \{\s*flush_check\(f\);\s*\}", repl="g.flush_check_all(seen_files);", why="HashSet iteration calling flush_check -> one ghost call (flush_check: unit core_trackers)"),
                 dict(rule="R5", kind="re", dotall=True, pat=r"unsafe \{\s*self\.allocator\.fast_forward\(([^;]*)\);\s*\}", repl=r"allocator.fast_forward(\1);", why="allocator call (unsafe fn; field passed explicitly)"),
             ],
             requires=[("", "next_block_id < 0x2000_0000_0000_0000")],  # A-ARITH: block ids stay far below 2^61 (the scan hands back at most its start id plus the number of units scanned)
             ensures=[
                 ("C09,C06,C13:after_recovery_the_allocator_continues_at_or_above_the_id_the_scan_handed_back", "final(allocator).ff@.len() == old(allocator).ff@.len() + 1 && final(allocator).ff@.last() >= next_block_id as u64"),
                 ("C11:recovery_ends_successfully_once_the_files_are_scanned", "ret is Ok"),
             ]),
    ],
)
