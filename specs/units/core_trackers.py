# C12 / C13: the process-global block/file state tables (allocator.rs) as methods over an explicit Globals (R7).
from specs.units._core import *

AL = RT + "allocator.rs"

def tracker_rules(table):
    return [
        dict(rule="R7", kind="re", pat=r"(?m)^\s*let map = Self::map\(\);\n", repl="", min=0, why="static table accessor removed; the table is a field of Globals"),
        dict(rule="R7", kind="re", pat=r"\bmap\.(read|write)\(\)", repl=r"g.%s.\1()" % table, min=0, why="static table -> g.%s" % table),
        dict(rule="R2", kind="lock_iflet"),
        dict(rule="R2", kind="re", pat=r"(g\.\w+)\.(?:read|write)\(\)\.ok\(\)\?", repl=r"&mut \1", min=0, why="X.read().ok()? -> &mut X"),
        dict(rule="R2", kind="re", pat=r'(g\.\w+)\.(?:read|write)\(\)\.expect\("[^"]*"\)', repl=r"&mut \1", min=0, why="X.write().expect(..) -> &mut X"),
        dict(rule="R4", kind="re", pat=r"Atomic(?:Bool|U16|U64)::new\(([^()]*)\)", repl=r"\1", min=0, why="AtomicX::new(v) -> v"),
        dict(rule="R4", kind="re", pat=r"\.store\(([^,()]+),\s*Ordering::\w+\)", repl=r" = \1", min=0, why="atomic store -> assignment (SEQ)"),
        dict(rule="R4", kind="re", pat=r"(\w+(?:\.\w+)*)\.fetch_add\(([^,()]+),\s*Ordering::\w+\);", repl=r"\1 = \1.wrapping_add(\2);", min=0, why="atomic fetch_add -> wrapping add (SEQ)"),
        dict(rule="R4", kind="re", pat=r"(\w+(?:\.\w+)*)\.fetch_sub\(([^,()]+),\s*Ordering::\w+\);", repl=r"\1 = \1.wrapping_sub(\2);", min=0, why="atomic fetch_sub -> wrapping sub (SEQ)"),
        dict(rule="R4", kind="re", pat=r"\.load\(Ordering::\w+\)", repl="", min=0, why="atomic load -> field read (SEQ)"),
        dict(rule="R4", kind="re", pat=r"\.swap\(([^,()]+),\s*Ordering::\w+\)", repl=r".vx_swap(\1)", min=0, why="atomic swap -> read-then-write (SEQ)"),
        dict(rule="R8", kind="re", pat=r"(\w+)\.get\(&block_id\)\.map\(\|b\| b\.file_path\.clone\(\)\)", repl=r"(match hashmap_get_mut_usize(\1, &block_id) { Some(b) => Some(b.file_path.clone()), None => None })", min=0, why="get().map(closure) -> match"),
        dict(rule="R4", kind="re", pat=r"(\w+)\.get\(&block_id\)", repl=r"hashmap_get_mut_usize(\1, &block_id)", min=0, why="get + atomic mutation -> get_mut"),
        dict(rule="R4", kind="re", pat=r"\b(r)\.get\((&?\w+)\)", repl=r"hashmap_get_mut_str(\1, \2)", min=0, why="HashMap<String,_>::get(&str) + atomic mutation -> get_mut"),
        dict(rule="R7", kind="re", pat=r"\b((?:Block|File)StateTracker::\w+)\(", repl=r"\1(g, ", min=0, why="tracker call gets the explicit Globals"),
        dict(rule="R7", kind="re", pat=r"\bSelf::(\w+)\(", repl=r"Self::\1(g, ", min=0, why="tracker call gets the explicit Globals"),
        dict(rule="R7", kind="re", pat=r"\bflush_check\(", repl="flush_check(g, ", min=0, why="flush_check gets the explicit Globals"),
        dict(rule="R7", kind="re", dotall=True, pat=r"if let Some\(tx\) = DELETION_TX\.get\(\) \{\s*let _ = tx\.send\((\w+)\);\s*\}", repl=r"g.deletions.push(\1);", min=0,
             why="DELETION_TX channel send -> push on the ghost-visible deletion queue"),
    ] + entry_rules(deref=True) + TO_STRING

SIG_G = [dict(pat=r"fn (\w+)\(", repl=r"fn \1(g: &mut Globals, ")]

def tfn(impl, name, table, **kw):
    d = dict(kind="fn", file=AL, path="impl %s / fn %s" % (impl, name), sig_rules=SIG_G, rules=tracker_rules(table),
             proof_prologue="broadcast use axiom_string_view_injective, axiom_string_of, lemma_string_of_view;")
    d.update(kw)
    return d

KM = [("", "obeys_key_model::<String>()"), ("", "obeys_key_model::<usize>()")]

from specs.units.batch_read_parse import BLOCK_MIRROR
CFG = "src/wal/config.rs"

ALLOC_RULES = [
    dict(rule="R2", kind="re", pat=r"(?m)^\s*self\.lock\(\);\n", repl="        vx_lock(&mut self.lock);\n", why="spin lock acquire -> ghost-checked flag (A-SEQ: never contended)"),
    dict(rule="R2", kind="re", pat=r"(?m)^(\s*)self\.unlock\(\);\n", repl=r"\1vx_unlock(&mut self.lock);\n", why="spin lock release -> flag"),
    dict(rule="R2", kind="lit", old="let data = unsafe { &mut *self.next_block.get() };", new="let data = &mut self.next_block;", why="UnsafeCell access under the spin lock -> &mut field"),
    dict(rule="R6", kind="re", pat=r"SharedMmapKeeper::get_mmap_arc\(", repl="mmap_keeper_get(", why="mmap keeper -> stub"),
    dict(rule="R7", kind="re", pat=r"\b((?:Block|File)StateTracker::\w+)\(", repl=r"\1(g, ", why="tracker call gets the explicit Globals"),
] + IOERR_RULES

def afn(name, **kw):
    d = dict(kind="fn", file=AL, path="impl BlockAllocator / fn %s" % name, drop_unsafe=True,
             hints=[dict(before="        Ok(ret)\n    }", text="        proof { lemma_alloc_step(old(g).blocks@, old(g).files@, ret.id as usize, ret.file_path, g.blocks@, g.files@); }")],
             sig_rules=[dict(pat=r"&self", repl="&mut self, g: &mut Globals")] + IOERR_SIG, rules=ALLOC_RULES,
             proof_prologue="broadcast use axiom_string_view_injective, axiom_string_of, lemma_string_of_view; proof { lemma_aligned_room(old(self).next_block.offset); }")
    d.update(kw)
    return d

ALLOC_REQ = KM + [
    ("", "ginv(old(g).blocks@, old(g).files@)"),
    ("", "!old(self).lock"),
    ("C13:assume_block_id_fresh_in_process", "!old(g).blocks@.contains_key(old(self).next_block.id as usize)"),
    ("", "old(self).next_block.id < 0x7fff_ffff_ffff_ffff && old(self).next_block.offset <= MAX_FILE_SIZE && old(self).next_block.offset % DEFAULT_BLOCK_SIZE == 0"),
    ("", "old(self).next_block.limit == DEFAULT_BLOCK_SIZE && old(self).next_block.used == 0"),
    ("", "forall|p: String| blk_set(old(g).blocks@, p).len() + 1 < 0xffff"),
]
ALLOC_ENS = [
    ("C12:alloc_keeps_counting_invariant", "ret is Ok ==> ginv(final(g).blocks@, final(g).files@)"),
    ("C12,C13:alloc_registers_block_under_its_own_file", "ret matches Ok(b) ==> final(g).blocks@.contains_key(b.id as usize) && final(g).blocks@[b.id as usize].file_path == b.file_path && !final(g).blocks@[b.id as usize].is_checkpointed"),
    ("C01,C06:alloc_block_ids_increase", "ret matches Ok(b) ==> b.id == old(self).next_block.id && final(self).next_block.id == b.id + 1"),
    ("C01,C06:alloc_block_unit_aligned", "ret matches Ok(b) ==> b.offset % DEFAULT_BLOCK_SIZE == 0 && b.limit % DEFAULT_BLOCK_SIZE == 0 && b.limit >= DEFAULT_BLOCK_SIZE && b.used == 0"),
    ("C01,C06,C16:alloc_block_inside_its_file", "ret matches Ok(b) ==> b.offset + b.limit <= MAX_FILE_SIZE"),
    ("C01:alloc_next_block_starts_after_this_one", "ret matches Ok(b) ==> (final(self).next_block.file_path == b.file_path && final(self).next_block.offset == b.offset + b.limit)"),
    ("C04:alloc_releases_spin_lock_on_every_path", "!final(self).lock"),
    ("C04,C01:failed_allocation_leaves_the_allocator_where_it_was", "ret is Err ==> final(self).next_block.offset == old(self).next_block.offset && final(self).next_block.limit == old(self).next_block.limit && final(self).next_block.file_path == old(self).next_block.file_path && final(self).next_block.mmap == old(self).next_block.mmap && final(self).next_block.id >= old(self).next_block.id"),
]

UNIT = dict(
    name="core_trackers",
    props=["C12", "C13", "C04", "C01", "C06", "C16", "C09"],
    implicit_props=["C12", "C13"],
    features=["allocator_api"],
    uses=["std::collections::HashMap", "vstd::std_specs::hash::*", "vstd::set_lib::*"],
    prelude=["core_types.rs", "str_ext.rs", "hashmap_ext.rs"],
    assumptions=[
        "R7: the OnceLock<RwLock<HashMap>> statics and the DELETION_TX channel behave as fields of one shared struct; A-SEQ (table operations are atomic); atomics are plain fields",
        "AtomicU16 arithmetic is modelled as wrapping (what fetch_add/fetch_sub do)",
    ],
    items=[
        dict(kind="mirror", file=AL, struct="BlockState", fields=[("file_path", "String", "String"), ("is_checkpointed", "AtomicBool", "bool")]),
        dict(kind="mirror", file=AL, struct="FileState", fields=[("locked_block_ctr", "AtomicU16", "u16"), ("checkpoint_block_ctr", "AtomicU16", "u16"),
                                                              ("total_blocks", "AtomicU16", "u16"), ("is_fully_allocated", "AtomicBool", "bool")]),
        dict(kind="lines", file=CFG, patterns=[r"^pub\(crate\) const DEFAULT_BLOCK_SIZE: u64 = 10 \* 1024 \* 1024;.*$", r"^pub\(crate\) const BLOCKS_PER_FILE: u64 = \d+;$",
                                                r"^pub\(crate\) const MAX_ALLOC: u64 = 1 \* 1024 \* 1024 \* 1024;.*$", r"^pub\(crate\) const MAX_FILE_SIZE: u64 = DEFAULT_BLOCK_SIZE \* BLOCKS_PER_FILE;$"]),
        BLOCK_MIRROR,
        dict(kind="mirror", file=AL, struct="BlockAllocator", fields=[("next_block", "UnsafeCell<Block>", "Block"), ("paths", "Arc<WalPathManager>", "PathsH"), ("lock", "AtomicBool", "bool")]),
        dict(kind="model", file="trackers_model.rs"),
        dict(kind="model", file="alloc_lock_model.rs"),
        tfn("BlockStateTracker", "register_block", "blocks", requires=KM,
            ensures=[("C12,C13:register_block_effect", "final(g).blocks@ == (if old(g).blocks@.contains_key(block_id) { old(g).blocks@ } else { old(g).blocks@.insert(block_id, BlockState { file_path: string_of(file_path@), is_checkpointed: false }) })"),
                     ("C12:register_block_frame", "final(g).files == old(g).files && final(g).deletions == old(g).deletions"),
                     ("C13:register_block_binds_id_to_given_path", "final(g).blocks@.contains_key(block_id) && final(g).blocks@[block_id].file_path@ == file_path@")]),
        tfn("BlockStateTracker", "get_file_path_for_block", "blocks", requires=KM,
            ensures=[("C12:get_file_path_effect", "ret == (if old(g).blocks@.contains_key(block_id) { Some(old(g).blocks@[block_id].file_path) } else { None::<String> })"),
                     ("C12:get_file_path_frame", "final(g).blocks@ == old(g).blocks@ && final(g).files == old(g).files && final(g).deletions == old(g).deletions")]),
        dict(kind="fn", file=AL, path="fn flush_check", sig_rules=SIG_G, rules=tracker_rules("files"), requires=KM,
             proof_prologue="broadcast use axiom_string_view_injective, axiom_string_of, lemma_string_of_view; proof { axiom_string_of(file_path@); axiom_string_view_injective(string_of(file_path@), file_path); }",
             ensures=[("C12:flush_check_sends_only_when_ready", "final(g).deletions@ == after_flush_check(old(g).deletions@, old(g).files@, file_path)"),
                      ("C12:flush_check_frame", "final(g).blocks == old(g).blocks && final(g).files@ == old(g).files@")]),
        tfn("FileStateTracker", "register_file_if_absent", "files", requires=KM,
            ensures=[("C12:register_file_effect", "final(g).files@ == reg_file(old(g).files@, string_of(file_path@))"),
                     ("C12:register_file_frame", "final(g).blocks == old(g).blocks && final(g).deletions == old(g).deletions")]),
        tfn("FileStateTracker", "add_block_to_file_state", "files", requires=KM,
            ensures=[("C12:add_block_effect", "final(g).files@ == ({ let f = reg_file(old(g).files@, string_of(file_path@)); f.insert(string_of(file_path@), FileState { total_blocks: wadd(f[string_of(file_path@)].total_blocks), ..f[string_of(file_path@)] }) })"),
                     ("C12:add_block_frame", "final(g).blocks == old(g).blocks && final(g).deletions == old(g).deletions")]),
        tfn("FileStateTracker", "inc_checkpoint_for_file", "files", requires=KM,
            ensures=[("C12:inc_checkpoint_effect", "final(g).files@ == (if old(g).files@.contains_key(string_of(file_path@)) { old(g).files@.insert(string_of(file_path@), FileState { checkpoint_block_ctr: wadd(old(g).files@[string_of(file_path@)].checkpoint_block_ctr), ..old(g).files@[string_of(file_path@)] }) } else { old(g).files@ })"),
                     ("C12:inc_checkpoint_frame", "final(g).blocks == old(g).blocks && final(g).deletions == old(g).deletions")]),
        tfn("FileStateTracker", "get_state_snapshot", "files", requires=KM,
            ensures=[("C12:snapshot_effect", "ret == (if old(g).files@.contains_key(string_of(file_path@)) { let s = old(g).files@[string_of(file_path@)]; Some((s.locked_block_ctr, s.checkpoint_block_ctr, s.total_blocks, s.is_fully_allocated)) } else { None::<(u16, u16, u16, bool)> })"),
                     ("C12:snapshot_frame", "final(g).blocks == old(g).blocks && final(g).files@ == old(g).files@ && final(g).deletions == old(g).deletions")]),
        tfn("FileStateTracker", "set_fully_allocated", "files", requires=KM,
            ensures=[("C12:set_fully_allocated_effect", "final(g).files@ == ({ let f = reg_file(old(g).files@, file_path); f.insert(file_path, FileState { is_fully_allocated: true, ..f[file_path] }) })"),
                     ("C12:set_fully_allocated_flush", "final(g).deletions@ == after_flush_check(old(g).deletions@, final(g).files@, file_path)"),
                     ("C12:set_fully_allocated_frame", "final(g).blocks == old(g).blocks")]),
        tfn("FileStateTracker", "set_block_locked", "files", requires=KM,
            ensures=[("C12:set_block_locked_effect", "final(g).files@ == (if old(g).blocks@.contains_key(block_id) { upd_locked(old(g).files@, old(g).blocks@[block_id].file_path, true) } else { old(g).files@ })"),
                     ("C12:set_block_locked_frame", "final(g).blocks@ == old(g).blocks@ && final(g).deletions == old(g).deletions")]),
        tfn("FileStateTracker", "set_block_unlocked", "files", requires=KM,
            ensures=[("C12:set_block_unlocked_effect", "final(g).files@ == (if old(g).blocks@.contains_key(block_id) { upd_locked(old(g).files@, old(g).blocks@[block_id].file_path, false) } else { old(g).files@ })"),
                     ("C12:set_block_unlocked_flush", "final(g).deletions@ == (if old(g).blocks@.contains_key(block_id) { after_flush_check(old(g).deletions@, final(g).files@, old(g).blocks@[block_id].file_path) } else { old(g).deletions@ })"),
                     ("C12:set_block_unlocked_frame", "final(g).blocks@ == old(g).blocks@")]),
        tfn("BlockStateTracker", "set_checkpointed_true", "blocks", requires=KM,
            ensures=[("C12:set_checkpointed_marks_block", "old(g).blocks@.contains_key(block_id) ==> final(g).blocks@ == old(g).blocks@.insert(block_id, BlockState { is_checkpointed: true, ..old(g).blocks@[block_id] })"),
                     ("C12:set_checkpointed_unknown_block_noop", "!old(g).blocks@.contains_key(block_id) ==> final(g).blocks@ == old(g).blocks@ && final(g).files@ == old(g).files@ && final(g).deletions@ == old(g).deletions@"),
                     ("C12:checkpoint_counter_counts_checkpointed_blocks", "ginv(old(g).blocks@, old(g).files@) ==> ginv(final(g).blocks@, final(g).files@)"),
                     ("C12:deletion_requested_only_when_every_block_of_file_checkpointed",
                      "ginv(old(g).blocks@, old(g).files@) ==> forall|k: int| old(g).deletions@.len() <= k < final(g).deletions@.len() ==> all_ckpt(final(g).blocks@, #[trigger] final(g).deletions@[k])")],
            hints=[dict(before="        if let Some(path) = path_opt {",
                        text="        proof { lemma_mark_step(old(g).blocks@, old(g).files@, block_id, g.blocks@); }"),
                   dict(after="FileStateTracker::inc_checkpoint_for_file(g, &path);",
                        text="            proof { lemma_flush_step(old(g).blocks@, old(g).files@, block_id, g.blocks@, g.files@, path); }")]),
        afn("get_next_available_block", requires=ALLOC_REQ, ensures=ALLOC_ENS),
        afn("fast_forward", hints=[], rules=ALLOC_RULES[:3], sig_rules=[dict(pat=r"&self", repl="&mut self")], proof_prologue=None,
            requires=[("", "!old(self).lock")],
            ensures=[
                ("C09,C06,C13:fast_forward_raises_the_next_block_id_at_least_to_the_requested_one_and_never_lowers_it",
                 "final(self).next_block.id >= next_id && final(self).next_block.id >= old(self).next_block.id"),
                ("C09,C06:fast_forward_changes_nothing_but_the_id",
                 "final(self).next_block.offset == old(self).next_block.offset && final(self).next_block.limit == old(self).next_block.limit && final(self).next_block.used == old(self).next_block.used"
                 " && final(self).next_block.file_path == old(self).next_block.file_path && final(self).next_block.mmap == old(self).next_block.mmap"),
                ("C04:alloc_releases_spin_lock_on_every_path", "!final(self).lock"),
            ]),
        afn("alloc_block", requires=ALLOC_REQ,
            hints=[dict(before="        Ok(ret)\n    }", text="        proof { lemma_alloc_step(old(g).blocks@, old(g).files@, ret.id as usize, ret.file_path, g.blocks@, g.files@); }"),
                   dict(before="        let alloc_units = ", text="        proof { lemma_alloc_arith(want_bytes); }")],
            ensures=ALLOC_ENS + [
            ("C01:alloc_block_fits_request", "ret matches Ok(b) ==> b.limit >= want_bytes"),
            ("C04:alloc_block_rejects_bad_size_without_effect", "(want_bytes == 0 || want_bytes > MAX_ALLOC) ==> ret is Err && *final(g) == *old(g) && final(self).next_block == old(self).next_block")]),
    ],
)
