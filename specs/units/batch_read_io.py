# batch_read_for_topic, region 3, io_uring branch ("io_uring is available, use it"): one read per planned range, completion check.
# C16 (the FD/io_uring branch hands the parser the same bytes as the mmap branch), C01, C11.
from specs.units._core import *
from specs.units.batch_read_parse import BLOCK_MIRROR

WR = RT + "walrus_read.rs"
RULES = [
    dict(rule="R8", kind="lit", old="for (plan_idx, read_plan) in plan.iter().enumerate() {", new="for plan_idx in 0..plan.len() { let read_plan = &plan[plan_idx];", why="for (i,x) in v.iter().enumerate() -> indexed loop"),
    dict(rule="R8", kind="lit", old="let mut temp_buffers: Vec<Vec<u8>> = vec![Vec::new(); plan.len()];", new="let mut temp_buffers: Vec<Vec<u8>> = vec_of_empty_vecs(plan.len());", why="vec![Vec::new(); n] -> stub (n empty vectors)"),
    dict(rule="R10", kind="re", pat=r"([\w\[\]]+)\.blk\.mmap\.storage\(\)\.as_fd\(\)", repl=r"mmap_fd(&\1.blk.mmap)", why="storage().as_fd() -> ghost descriptor naming that block's file"),
    dict(rule="R10", kind="lit", old="io_uring::types::Fd(fd_backend.file().as_raw_fd())", new="fd_backend", why="raw fd wrapper -> the ghost descriptor itself"),
    dict(rule="R10", kind="re", dotall=True,
         pat=r"io_uring::opcode::Read::new\(fd, buffer\.as_mut_ptr\(\), size as u32\)\s*\.offset\(file_offset as u64\)\s*\.build\(\)\s*\.user_data\(plan_idx as u64\);\s*temp_buffers\[plan_idx\] = buffer;",
         repl="read_op_new(fd, size as u32, file_offset as u64, plan_idx as u64);\n                    temp_buffers.set(plan_idx, buffer);",
         why="Read::new(fd, ptr, len).offset(o).build().user_data(u) + the move of that buffer into temp_buffers[u] -> ghost read op (A-URING-BUF is tied to this exact text)"),
    dict(rule="R10", kind="lit", old="ring.submit_and_wait(plan.len())?;", new="ring.submit_and_wait(plan.len(), &mut temp_buffers)?;", why="the kernel fills the registered buffers while we wait"),
    dict(rule="R10", kind="lit", old="ring.completion().next()", new="ring.completion_next()", why="completion queue -> ghost completion sequence"),
    dict(rule="R8", kind="lit", old="for _ in 0..plan.len() {", new="for __k in 0..plan.len() {", why="anonymous loop index named"),
    dict(rule="R8", kind="lit", old="expected_sizes[plan_idx] = size;", new="expected_sizes.set(plan_idx, size);", why="Vec index assignment -> Vec::set"),
    dict(rule="R8", kind="lit", old="let mut expected_sizes: Vec<usize> = vec![0; plan.len()];", new="let mut expected_sizes: Vec<usize> = vec_of_zeros(plan.len());", why="vec![0; n] -> stub"),
]
PUSH_RULE = [
    dict(rule="R10", kind="re", dotall=True, pat=r"unsafe \{\s*ring\.submission\(\)\.push\(&read_op\)\.map_err\(\|e\| \{\s*io_err\(IoKind::Other\)\s*\}\)\?;\s*\}",
         repl="match ring.push(&read_op) { Ok(_) => {}, Err(_) => return Err(io_err(IoKind::Other)) }", why="unsafe submission push -> ghost ring"),
]
UNIT = dict(
    name="batch_read_io",
    props=["C16", "C01", "C11", "C03"],
    implicit_props=["C16", "C01", "C11"],
    prelude=["core_types.rs", "engine.rs"],
    assumptions=[
        "R10 / A-URING: io_uring as a ghost ring: one completion per submitted read, any order, any result; a completion reporting the full size means that read's buffer holds the file range behind the submitted descriptor",
        "A-URING-BUF: the buffer of the read with user_data u is temp_buffers[u] (pointer taken, then the Vec is moved there; the rewrite rule matches both statements as one text)",
        "R14 region: the `if let Some(mut ring) = ring` arm; ring creation and the mmap arms (iterator chains over SharedMmap::read) are outside",
    ],
    items=[
        BLOCK_MIRROR,
        dict(kind="struct", file=WR, struct="ReadPlan"),
        dict(kind="model", file="uring_read_model.rs"),
        dict(kind="model", file="uring_read_stubs.rs"),
        dict(kind="region", file=WR, within="impl Walrus / fn batch_read_for_topic", start="let mut temp_buffers: Vec<Vec<u8>> = vec![Vec::new(); plan.len()];", end="\n                temp_buffers\n            } else {",
             sig="fn batch_read_io(ring: &mut RingR, plan: &Vec<ReadPlan>) -> (ret: IoResult<Vec<Vec<u8>>>)", post="Ok(temp_buffers)",
             rules=RULES + IOERR_RULES + PUSH_RULE,
             requires=[("", "!old(ring).submitted@ && old(ring).subs@.len() == 0"),
                       ("", "forall|k: int| 0 <= k < plan@.len() ==> (#[trigger] plan@[k]).start <= plan@[k].end && plan@[k].end - plan@[k].start <= 0x4000_0000 && plan@[k].blk.offset + plan@[k].end <= 0x1_ffff_ffff_ffff")],
             ensures=[("C16,C01:the_io_uring_branch_returns_for_every_planned_range_exactly_the_bytes_of_that_range_of_that_blocks_file",
                       "ret matches Ok(b) ==> b@.len() == plan@.len() && forall|k: int| 0 <= k < plan@.len() ==> (#[trigger] b@[k])@ == want_bytes(plan@[k]) && plan@[k].blk.offset + plan@[k].end <= disk(plan@[k].blk.mmap.file).len()")],
             loops={
                 0: dict(kind="for", expect="read_op_new", n_loops=2, invariant=[
                     ("", "forall|k: int| 0 <= k < plan@.len() ==> (#[trigger] plan@[k]).start <= plan@[k].end && plan@[k].end - plan@[k].start <= 0x4000_0000 && plan@[k].blk.offset + plan@[k].end <= 0x1_ffff_ffff_ffff"),
                     ("", "!ring.submitted@ && ring.subs@.len() == plan_idx && temp_buffers@.len() == plan@.len() && expected_sizes@.len() == plan@.len()"),
                     ("C16:each_read_is_submitted_on_the_descriptor_of_its_own_block_with_its_own_range", "forall|k: int| 0 <= k < plan_idx ==> (#[trigger] ring.subs@[k]).ud == k && ring.subs@[k].file == plan@[k].blk.mmap.file && ring.subs@[k].offset == plan@[k].blk.offset + plan@[k].start && ring.subs@[k].size == plan@[k].end - plan@[k].start && expected_sizes@[k] == ring.subs@[k].size && temp_buffers@[k]@.len() == ring.subs@[k].size"),
                 ]),
                 1: dict(kind="for", expect="completion_next", n_loops=2, invariant=[
                     ("", "ring.submitted@ && ring.cqes@.len() == plan@.len() && ring.taken@ == __k && ring.subs@.len() == plan@.len() && expected_sizes@.len() == plan@.len() && temp_buffers@.len() == plan@.len()"),
                     ("", "subs_match(ring.subs@, plan@, expected_sizes@) && completions_ok(ring.subs@, ring.cqes@, temp_buffers@)"),
                     ("C11,C16:a_short_or_failed_read_is_an_error_not_data", "forall|j: int| 0 <= j < __k ==> (#[trigger] ring.cqes@[j]).0 < plan@.len() ==> ring.cqes@[j].1 >= 0 && ring.cqes@[j].1 as int == expected_sizes@[ring.cqes@[j].0 as int]"),
                 ]),
             },
             hints=[dict(after_loop=0, text="                proof { lemma_subs_match_intro(*ring, plan@, expected_sizes@); }"),
                    dict(after="let plan_idx = cqe.user_data() as usize;", text="                        proof { lemma_cqe_in_range(*ring, temp_buffers@, plan@, expected_sizes@, __k as int); }"),
                    dict(after_loop=1, text="                proof { lemma_all_filled(*ring, temp_buffers@, plan@, expected_sizes@); }")]),
    ] + [
        # the mmap arms of region 3 (io_uring unavailable / FD backend off): the closure body that reads one planned range
        dict(kind="closure", file=WR, within="impl Walrus / fn batch_read_for_topic", index=i, pattern=r"\|read_plan\|\s*\{",
             sig="fn mmap_read_range_%d(read_plan: &ReadPlan) -> (ret: Vec<u8>)" % i,
             rules=[
                 dict(rule="R8", kind="lit", old="vec![0u8; size]", new="vec_of_zero_bytes(size)", why="vec![0u8; n] -> stub (n bytes)"),
                 dict(rule="R6", kind="lit", old="read_plan.blk.mmap.read(file_offset, &mut buffer);", new="mmap_read_vec(&read_plan.blk.mmap, file_offset, &mut buffer);", why="SharedMmap::read -> disk model stub"),
             ],
             requires=[("", "read_plan.start <= read_plan.end && read_plan.end - read_plan.start <= 0x4000_0000 && read_plan.blk.offset + read_plan.end <= 0x1_ffff_ffff_ffff")],
             ensures=[("C16,C01,C03:the_mmap_branch_returns_for_a_planned_range_exactly_the_bytes_of_that_range",
                       "ret@.len() == read_plan.end - read_plan.start && (read_plan.blk.offset + read_plan.end <= disk(read_plan.blk.mmap.file).len() ==> ret@ == want_bytes(*read_plan))")])
        for i in (0, 1)
    ],
)
