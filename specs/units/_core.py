# Shared rule sets for units cut from the core engine (src/wal/**).
import re

RT = "src/wal/runtime/"

# R5: std::io::Error::new(kind, msg) -> io_err(kind)   (message expression dropped: assumed side-effect free)
IOERR_RULES = [
    dict(rule="R5", kind="call", pat=r"(?:std::)?io::Error::new", repl="io_err({args})",
         args_sub=(r"^\s*((?:std::)?io::ErrorKind::\w+)\s*,.*$", r"\1"), min=0,
         why="io::Error::new(kind, msg) -> io_err(kind); message text dropped"),
    dict(rule="R5", kind="re", pat=r"(?:std::)?io::ErrorKind::", repl="IoKind::", min=0, why="ErrorKind -> IoKind mirror"),
    dict(rule="R5", kind="re", pat=r"(?:std::)?io::Result<", repl="IoResult<", min=0, why="io::Result<T> -> Result<T, IoError>"),
]
IOERR_SIG = [dict(pat=r"(?:std::)?io::Result<", repl="IoResult<", min=0)]

# R2: lock elision (SEQ mode)
_ERRNEW = r"\s*\{?\s*(?:std::)?io::Error::new\((?:[^()]|\([^()]*\))*\)\s*\}?\s*"
LOCK_RULES = [
    dict(rule="R2", kind="re", dotall=True, min=0,
         pat=r"([\w\.]+?)\s*\.(?:read|write|lock)\(\)\s*\.map_err\(\s*\|_\|" + _ERRNEW + r"\)\?",
         repl=r"&mut \1", why="X.lock()/read()/write().map_err(..)? -> &mut X (locks exclude, never poison)"),
    dict(rule="R2", kind="re", dotall=True, min=0,
         pat=r"if let Ok\((mut\s+)?(\w+)\)\s*=\s*([\w\.]+)\.(?:read|write|lock)\(\)\s*\{",
         repl=r"{ let \1\2 = &mut \3;", why="if let Ok(g) = X.write() { -> { let g = &mut X;"),
    dict(rule="R2", kind="re", dotall=True, min=0,
         pat=r"([\w\.]+?)\s*\.(?:read|write|lock)\(\)\s*\.(?:unwrap\(\)|expect\(\"[^\"]*\"\))",
         repl=r"&mut \1", why="X.write().unwrap()/expect(..) -> &mut X"),
]
SELF_MUT = [dict(pat=r"&self\b", repl="&mut self", min=0)]

# R8e: HashMap entry API
def entry_rules(deref=False):
    tgt = "&mut *{m1}" if deref else "&mut {m1}"
    return [
        dict(rule="R8e", kind="call", pat=r"(\w+(?:\.\w+)*)\s*\.entry\(((?:[^()]|\([^()]*\))*)\)\s*\.or_insert_with", repl="hashmap_entry_or_insert(%s, {m2}, {args})" % tgt,
             args_sub=(r"^\s*\|\|\s*", ""), min=0, why="entry(k).or_insert_with(|| v) -> eager stub (closure body is a pure constructor)"),
        dict(rule="R8e", kind="call", pat=r"(\w+(?:\.\w+)*)\s*\.entry\(((?:[^()]|\([^()]*\))*)\)\s*\.or_insert", repl="hashmap_entry_or_insert(%s, {m2}, {args})" % tgt,
             min=0, why="entry(k).or_insert(v) -> stub"),
    ]

TO_STRING = [dict(rule="R9", kind="re", pat=r"\.to_string\(\)", repl=".vx_to_string()", min=0, why="str::to_string -> VxStr::vx_to_string")]

# config.rs checksum64, proved equal to the FNV-1a specification (unbounded input length)
CHECKSUM_ITEM = dict(kind="fn", file="src/wal/config.rs", path="fn checksum64",
    rules=[dict(rule="R8", kind="re", pat=r"for &b in data \{", repl="for i in 0..data.len() { let b = data[i];", why="for &b in slice -> indexed loop")],
    ensures=[("C11,C01:checksum64_is_fnv1a", "ret == fnv1a(data@)")],
    loops={0: dict(kind="for", invariant=[("", "hash == fnv1a(data@.subrange(0, i as int))")])},
    hints=[dict(after="let b = data[i];", text="        proof { assert(data@.subrange(0, i + 1).drop_last() =~= data@.subrange(0, i as int)); }"),
           dict(before="    hash\n}", text="    proof { assert(data@.subrange(0, data@.len() as int) =~= data@); }")])


# block.rs decode_metadata (validated decode of an entry header), proved against the rkyv stand-ins of specs/prelude/rkyv.rs
DECODE_CALL_RULES = [
    dict(rule="R5", kind="re", pat=r"decode_metadata\(&(\w+)\[\.\.\]\)", repl=r"decode_metadata(\1.as_slice())", min=0, why="&aligned[..] -> AlignedVec::as_slice()"),
]
DECODE_ITEM = dict(kind="fn", file="src/wal/block.rs", path="fn decode_metadata",
    rules=[dict(rule="R5", kind="lit", old="rkyv::check_archived_root::<Metadata>(bytes).ok()?", new="(match rkyv_check_archived_root_metadata(bytes) { Ok(a) => a, Err(_) => return None })", why="check_archived_root(..).ok()? -> explicit match on the validating stub"),
           dict(rule="R5", kind="lit", old="archived.deserialize(&mut rkyv::Infallible).ok()", new="(match archived.deserialize_infallible() { Ok(m) => Some(m), Err(_) => None })", why="deserialize(&mut Infallible).ok() -> stub + match")],
    ensures=[("C11:a_header_is_decoded_only_after_it_passed_validation", "valid_archive(bytes@) ==> ret == Some(spec_decode(bytes@))"),
             ("C11:a_header_is_decoded_only_after_it_passed_validation", "!valid_archive(bytes@) ==> ret is None")])
