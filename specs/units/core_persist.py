# C09: persistence policy of the read cursor (should_persist).
from specs.units._core import *
from specs.units.batch_read_parse import BLOCK_MIRROR

W = RT + "walrus.rs"
WR = RT + "walrus_read.rs"
RD = RT + "reader.rs"

COLINFO_MIRROR = dict(kind="mirror", file=RD, struct="ColReaderInfo", fields=[
    ("chain", "Vec<Block>", "Vec<Block>"), ("cur_block_idx", "usize", "usize"), ("cur_block_offset", "u64", "u64"),
    ("tail_block_id", "u64", "u64"), ("tail_offset", "u64", "u64"), ("reads_since_persist", "u32", "u32"),
    ("hydrated_from_index", "bool", "bool")])

UNIT = dict(
    name="core_persist",
    props=["C09"],
    prelude=["core_types.rs", "engine.rs"],
    model=[],
    assumptions=["A-SEQ: the ColReaderInfo is exclusively borrowed (the caller holds the column write lock at every call site)"],
    items=[
        BLOCK_MIRROR,
        COLINFO_MIRROR,
        dict(kind="struct", file=W, struct="ReadConsistency", attrs=["#[derive(Clone, Copy)]"]),
        dict(kind="mirror", file=W, struct="Walrus", fields=[("read_consistency", "ReadConsistency", "ReadConsistency")]),
        dict(kind="model", file="persist_model.rs"),
        dict(kind="fn", file=WR, path="impl Walrus / fn should_persist",
             ensures=[
                 ("C09:strict_always_persists", "self.read_consistency is StrictlyAtOnce ==> ret && *final(info) == *old(info)"),
                 ("C09:atleastonce_force_persists_and_resets", "(self.read_consistency is AtLeastOnce && force) ==> ret && final(info).reads_since_persist == 0"),
                 ("C09:atleastonce_counts_every", "match self.read_consistency { ReadConsistency::AtLeastOnce { persist_every } => !force ==> should_persist_spec(persist_every, old(info).reads_since_persist, ret, final(info).reads_since_persist), _ => true }"),
                 ("C09:unpersisted_reads_bounded", "match self.read_consistency { ReadConsistency::AtLeastOnce { persist_every } => old(info).reads_since_persist < every_of(persist_every) ==> final(info).reads_since_persist < every_of(persist_every), _ => true }"),
                 ("C09:only_counter_changes", "frame_only_counter(*old(info), *final(info))"),
             ]),
    ],
)
