# Reader::append_block_to_chain (reader.rs 32-98): sealing a block onto a topic's chain, with tail-progress carry-over.
from specs.units._core import *
from specs.units.batch_read_parse import BLOCK_MIRROR
from specs.units.core_persist import COLINFO_MIRROR

RD = RT + "reader.rs"
RULES = [
    dict(rule="R16", kind="re", dotall=True,
         pat=r"if let Some\(info_arc\) = \{\s*let map = self\.data\.read\(\)\.map_err\(\|_\| \{\s*io::Error::new\([^;]*?\)\s*\}\)\?;\s*map\.get\(col\)\.cloned\(\)\s*\} \{",
         repl="if let Some(info_arc) = hashmap_get_mut_str(&mut self.data, col) {", why="read-locked lookup of the column cell -> the map's value (R16)"),
    dict(rule="R2", kind="re", dotall=True, pat=r"info_arc\s*\.write\(\)\s*\.map_err\(\s*\|_\|\s*\{?\s*io::Error::new\((?:[^()]|\([^()]*\))*\)\s*\}?\s*\)\?", repl="&mut *info_arc", why="column RwLock guard -> &mut cell"),
    dict(rule="R16", kind="re", dotall=True, pat=r"let mut map = self\.data\.write\(\)\.map_err\(\|_\| \{\s*io::Error::new\([^;]*?\)\s*\}\)\?;", repl="let map = &mut self.data;", why="map write guard -> &mut field"),
    dict(rule="R16", kind="re", pat=r"Arc::new\(RwLock::new\(ColReaderInfo \{", repl="(ColReaderInfo {", why="Arc<RwLock<T>> cell -> T"),
    dict(rule="R16", kind="re", dotall=True, pat=r"\}\)\)\s*\}\)\s*\.clone\(\)", repl="}) })", why="cell constructor closure end; Arc clone of the cell -> the cell"),
] + entry_rules(deref=True) + IOERR_RULES + TO_STRING

UNIT = dict(
    name="reader_append",
    props=["C01", "C09", "C05", "C04"],
    implicit_props=["C01", "C09", "C05"],  # the properties every obligation of the unit counts for; the others only through labelled clauses
    features=["allocator_api"],
    uses=["std::collections::HashMap", "vstd::std_specs::hash::*"],
    prelude=["core_types.rs", "str_ext.rs", "hashmap_ext.rs", "engine.rs"],
    assumptions=["A-SEQ/A-LOCK: map and column locks elided; R16: the column cells are the values of the reader map"],
    items=[
        BLOCK_MIRROR, COLINFO_MIRROR,
        dict(kind="model", file="reader_model.rs"),
        dict(kind="fn", file=RD, path="impl Reader / fn append_block_to_chain", sig_rules=SELF_MUT + IOERR_SIG, rules=RULES,
             proof_prologue="broadcast use axiom_string_view_injective, axiom_string_of, lemma_string_of_view;",
             requires=[("", "obeys_key_model::<String>()")],
             ensures=[
                 ("C01,C09:append_block_appends_and_carries_tail_progress_over",
                  "ret is Ok ==> final(self).data@.contains_key(string_of(col@)) && col_after_append(old(self).data@, string_of(col@), final(self).data@[string_of(col@)], block)"),
                 ("C01:append_block_leaves_other_topics_alone",
                  "forall|k: String| k != string_of(col@) ==> (final(self).data@.contains_key(k) == old(self).data@.contains_key(k) && (old(self).data@.contains_key(k) ==> final(self).data@[k] == old(self).data@[k]))"),
                 ("C04:append_block_never_fails_in_seq_mode", "ret is Ok"),
             ]),
    ],
)
