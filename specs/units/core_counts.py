# C15 (+C17 ordering, C04 err-path): per-topic entry counters and the append entry points.
from specs.units._core import *

W = RT + "walrus.rs"
WW = RT + "walrus_write.rs"

COUNT_RULES = LOCK_RULES + entry_rules(deref=True) + TO_STRING

def count_after(op):
    # whole-map postcondition: the touched topic gets the saturating update, every other topic is untouched
    return [
        ("C15:count_%s_exact" % op,
         "delta > 0 ==> final(self).topic_entry_counts@ == old(self).topic_entry_counts@.insert(topic@.to_rust_string_spec(), count_of(old(self).topic_entry_counts@, topic@).%s(delta))" % ("saturating_add" if op == "inc" else "saturating_sub")),
    ]

UNIT = dict(
    name="core_counts",
    props=["C15", "C17", "C04"],
    features=["allocator_api"],
    uses=["std::collections::HashMap", "vstd::std_specs::hash::*"],
    prelude=["str_ext.rs", "hashmap_ext.rs", "core_types.rs"],
    model=["counts_model.rs"],
    assumptions=[
        "A-LOCK/A-SEQ: RwLock<HashMap<String,u64>> replaced by the map; single thread",
        "assumed callee contracts for mark_topic_dirty / get_or_create_writer / Writer::write / Writer::batch_write: they do not touch topic_entry_counts (frame) - those functions do not have access to the field",
    ],
    items=[
        dict(kind="mirror", file=W, struct="Walrus", fields=[
            ("topic_entry_counts", "RwLock<HashMap<String, u64>>", "HashMap<String, u64>"),
        ], ghost_fields=["rest: WalrusRest"]),
        dict(kind="fn", file=W, path="impl Walrus / fn increment_topic_entry_count", sig_rules=SELF_MUT, rules=COUNT_RULES, proof_prologue="broadcast use axiom_string_view_injective, axiom_string_of, lemma_string_of_view;",
             requires=[("C15:pre_key_model", "obeys_key_model::<String>()")],
             ensures=[("C15:increment_exact_whole_map", "final(self).topic_entry_counts@ == counts_after_inc(old(self).topic_entry_counts@, topic@, delta)"),
                      ("C15:increment_frame_rest", "final(self).rest == old(self).rest")]),
        dict(kind="fn", file=W, path="impl Walrus / fn decrement_topic_entry_count", sig_rules=SELF_MUT, rules=COUNT_RULES, proof_prologue="broadcast use axiom_string_view_injective, axiom_string_of, lemma_string_of_view;",
             requires=[("C15:pre_key_model", "obeys_key_model::<String>()")],
             ensures=[("C15:decrement_exact_whole_map", "final(self).topic_entry_counts@ == counts_after_dec(old(self).topic_entry_counts@, topic@, delta)"),
                      ("C15:decrement_frame_rest", "final(self).rest == old(self).rest")]),
        dict(kind="stub", impl="Walrus", sig="fn mark_topic_dirty(&mut self, topic: &str)", proved_in="trusted frame: body only calls topic_clean_tracker.mark_dirty",
             ensures=[("", "final(self).topic_entry_counts == old(self).topic_entry_counts"),
                      ("", "final(self).rest.dirty == old(self).rest.dirty.insert(topic@)")]),
        dict(kind="stub", impl="Walrus", sig="fn get_or_create_writer(&mut self, col_name: &str) -> (r: IoResult<WriterRef>)", proved_in="frame only; body verified for C04 in core_writer",
             ensures=[("", "final(self).topic_entry_counts == old(self).topic_entry_counts"),
                      ("", "final(self).rest.dirty == old(self).rest.dirty")]),
        dict(kind="stub", impl="WriterRef", sig="fn write(&self, data: &[u8]) -> (r: IoResult<()>)", proved_in="Writer has no access to Walrus fields"),
        dict(kind="stub", impl="WriterRef", sig="fn batch_write(&self, batch: &[&[u8]]) -> (r: IoResult<()>)", proved_in="Writer has no access to Walrus fields"),
        dict(kind="fn", file=WW, path="impl Walrus / fn append_for_topic", sig_rules=SELF_MUT + IOERR_SIG, rules=IOERR_RULES,
             requires=[("C15:pre_key_model", "obeys_key_model::<String>()")],
             ensures=[("C15:append_ok_counts_plus_one", "ret is Ok ==> final(self).topic_entry_counts@ == counts_after_inc(old(self).topic_entry_counts@, col_name@, 1)"),
                      ("C15,C04:append_err_counts_unchanged", "ret is Err ==> final(self).topic_entry_counts@ == old(self).topic_entry_counts@"),
                      ("C17:append_marks_topic_dirty", "final(self).rest.dirty.contains(col_name@)")]),
        dict(kind="fn", file=WW, path="impl Walrus / fn batch_append_for_topic", sig_rules=SELF_MUT + IOERR_SIG, rules=IOERR_RULES,
             requires=[("C15:pre_key_model", "obeys_key_model::<String>()")],
             ensures=[("C15:batch_append_ok_counts_plus_len", "ret is Ok ==> final(self).topic_entry_counts@ == counts_after_inc(old(self).topic_entry_counts@, col_name@, batch@.len() as u64)"),
                      ("C15,C04:batch_append_err_counts_unchanged", "ret is Err ==> final(self).topic_entry_counts@ == old(self).topic_entry_counts@"),
                      ("C17:batch_append_marks_topic_dirty", "final(self).rest.dirty.contains(col_name@)")]),
    ],
)
