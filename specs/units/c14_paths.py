# C14 (+ C13 roots): namespace key -> private directory strictly inside the data dir.
CFG = "src/wal/config.rs"
PATHS = "src/wal/paths.rs"

R9_SANITIZE = [
    dict(rule="R9", kind="call", pat=r"key\s*\.chars\(\)\s*\.map", tail=r"\s*\.collect\(\)",
         repl="str_map_chars_sanitize_char(key)", why="chars().map(closure).collect() -> stub over lifted closure"),
    dict(rule="R9", kind="re", pat=r"\.trim_matches\(('[^']+')\)", repl=r".vx_trim_matches_char(\1)", min=0, why="String::trim_matches(char) -> VxStrTrim stub"),
    dict(rule="R9", kind="re", pat=r'format!\(\s*"ns_\{:x\}"\s*,\s*', repl="format_ns_hex_checked(", min=0, why='format!("ns_{:x}", v) -> stub'),
    dict(rule="R9", kind="re", pat=r"\.to_string\(\)", repl=".vx_to_string()", min=0, why="str::to_string -> VxStr::vx_to_string"),
]
R9_PUSH = [
    dict(rule="R9", kind="re", pat=r"root\.push\(", repl="pathbuf_push(&mut root, ", min=0, why="PathBuf::push -> path model stub"),
    dict(rule="R9", kind="re", pat=r"root\.ends_with\(", repl="pathbuf_ends_with(&root, ", min=0, why="PathBuf::ends_with -> path model stub"),
]
# `let x = RECV.filter(|v| BODY);`  ->  match desugaring of Option::filter (closure body lifted verbatim)
OPT_FILTER = [dict(rule="R8", kind="re", pat=r"let (\w+) = ([^;]*?)\.filter\(\|(\w+)\| ([^;]*)\);", min=0,
                   repl=r"let \1 = match \2 { Some(\3) => if { let \3 = &\3; \4 } { Some(\3) } else { None }, None => None };",
                   why="Option::filter(closure) -> match (std semantics of Option::filter)")]
BUILD = "src/wal/runtime/builder.rs"

UNIT = dict(
    name="c14_paths",
    props=["C14", "C13"],
    uses=["std::path::PathBuf"],
    prelude=["strings.rs", "str_ext.rs", "paths.rs"],
    model=["c14_model.rs"],
    assumptions=[
        "A-STD: std char/string semantics as written in specs/prelude/strings.rs (is_ascii_alphanumeric, trim_matches, format!{:x}, chars().map().collect())",
        "A-PATH: PathBuf::push/join of a single normal component appends exactly that component (specs/prelude/paths.rs)",
        "wal_data_dir(), thread_namespace(), std::env::var are arbitrary-valued stubs",
    ],
    items=[
        dict(kind="closure", file=CFG, within="fn sanitize_namespace", index=0,
             sig="fn sanitize_char(c: char) -> (r: char)",
             ensures=[("C14:closure_maps_to_allowed", "allowed_char(r)"),
                      ("C14:closure_identity_on_allowed", "r == sanitize_char_spec(c)")]),
        dict(kind="model", file="c14_map_stub.rs"),
        dict(kind="fn", file=CFG, path="fn checksum64",
             rules=[dict(rule="R8", kind="re", pat=r"for &b in data \{", repl="for i in 0..data.len() { let b = data[i];",
                         why="for &b in slice -> indexed loop")]),
        dict(kind="fn", file=CFG, path="fn sanitize_namespace", rules=R9_SANITIZE,
             proof_prologue="broadcast use lemma_trim_empty_iff_all, lemma_allowed_safe, lemma_trim_allowed;",
             ensures=[("C14:sanitized_is_safe_component", "safe_component(ret@)"),
                      ("C14:sanitized_all_allowed", "all_allowed(ret@)"),
                      ("C14,C13:sanitize_identity_on_clean_keys",
                       "all_allowed(key@) && !all_chars(key@, '_') && !all_chars(key@, '.') ==> ret@ == key@")]),
        dict(kind="struct", file=PATHS, struct="WalPathManager"),
        # the prelude's contract of wal_data_dir() (an arbitrary directory, read on every call) is tied to the function's exact text
        dict(kind="stub", sig="pub fn wal_data_dir_reads_the_environment_on_every_call() -> (r: bool)",
             anchor=dict(file="src/wal/config.rs", path="fn wal_data_dir", body='''
    std::env::var_os("WALRUS_DATA_DIR")
        .map(PathBuf::from)
        .unwrap_or_else(|| PathBuf::from("wal_files"))
''')),
        dict(kind="fn", file=PATHS, path="impl WalPathManager / fn for_key", rules=R9_PUSH, proof_prologue="broadcast use lemma_push_inside;",
             ensures=[("C14,C13:for_key_root_strictly_inside", "strictly_inside(path_view(&ret.root), data_dir_view())"),
                      ("C14,C13:for_key_root_is_one_level", "path_view(&ret.root).len() == data_dir_view().len() + 1")]),
        dict(kind="fn", file=PATHS, path="impl WalPathManager / fn with_data_dir", rules=R9_PUSH, proof_prologue="broadcast use lemma_push_inside;",
             ensures=[("C14,C13:with_data_dir_key_strictly_inside",
                       "key.is_some() ==> strictly_inside(path_view(&ret.root), path_view(&data_dir)) && path_view(&ret.root).len() == path_view(&data_dir).len() + 1"),
                      ("C14:with_data_dir_nokey_is_dir", "key.is_none() ==> path_view(&ret.root) == path_view(&data_dir)")]),
        dict(kind="fn", file=PATHS, path="impl WalPathManager / fn default",
             proof_prologue="broadcast use lemma_push_inside;",
             rules=R9_PUSH + [dict(rule="R9", kind="lit", old="std::env::var(", new="env_var(", why="env var -> arbitrary stub")],
             ensures=[("C14,C13:default_root_inside_or_dir",
                       "path_view(&ret.root) == data_dir_view() || (strictly_inside(path_view(&ret.root), data_dir_view()) && path_view(&ret.root).len() == data_dir_view().len() + 1)")]),
        dict(kind="struct", file="src/wal/runtime/walrus.rs", struct="ReadConsistency", attrs=["#[derive(Clone, Copy)]"]),
        dict(kind="struct", file=CFG, struct="FsyncSchedule", attrs=["#[derive(Clone, Copy)]"]),
        dict(kind="struct", file=BUILD, struct="WalrusBuilder"),
        dict(kind="model", file="c14_builder_model.rs"),
        dict(kind="fn", file=BUILD, path="impl WalrusBuilder / fn build",
             sig_rules=[dict(pat=r"std::io::Result<Walrus>", repl="IoResult<WalrusH>")],
             rules=OPT_FILTER + [
                 dict(rule="R9", kind="re", pat=r"\.as_deref\(\)", repl=".vx_as_deref()", min=0, why="Option<String>::as_deref -> stub"),
                 dict(rule="R5", kind="re", pat=r"Walrus::with_paths\(Arc::new\((\w+)\),", repl=r"walrus_with_paths(\1,", why="Walrus::with_paths(Arc::new(p),..) -> stub: the instance lives in p.root"),
             ],
             proof_prologue="broadcast use lemma_push_inside;",
             ensures=[("C14:builder_key_gives_private_dir", "self.key is Some ==> (ret matches Ok(w) ==> strictly_inside(w.root@, builder_base(self)) && w.root@.len() == builder_base(self).len() + 1)")]),
    ],
)
