# C14 (+ C13 roots): namespace key -> private directory strictly inside the data dir.
CFG = "src/wal/config.rs"
PATHS = "src/wal/paths.rs"

R9_SANITIZE = [
    dict(rule="R9", kind="call", pat=r"key\s*\.chars\(\)\s*\.map", tail=r"\s*\.collect\(\)",
         repl="str_map_chars_sanitize_char(key)", why="chars().map(closure).collect() -> stub over lifted closure"),
    dict(rule="R9", kind="re", pat=r"(\w+)\.trim_matches\(('[^']+')\)\.is_empty\(\)",
         repl=r"str_trim_matches_is_empty(&\1, \2)", why="trim_matches(c).is_empty() -> stub"),
    dict(rule="R9", kind="re", pat=r'format!\(\s*"ns_\{:x\}"\s*,\s*', repl="format_ns_hex(", why='format!("ns_{:x}", v) -> stub'),
]
R9_PUSH = [
    dict(rule="R9", kind="re", pat=r"root\.push\(", repl="pathbuf_push(&mut root, ", why="PathBuf::push -> path model stub"),
]

UNIT = dict(
    name="c14_paths",
    props=["C14", "C13"],
    implicit_props=["C14"],
    uses=["std::path::PathBuf"],
    prelude=["strings.rs", "paths.rs"],
    model=["c14_model.rs"],
    assumptions=[
        "A-STD: std char/string semantics as written in specs/prelude/strings.rs (is_ascii_alphanumeric, trim_matches, format!{:x}, chars().map().collect())",
        "A-PATH: PathBuf::push/join of a single normal component appends exactly that component (specs/prelude/paths.rs)",
        "wal_data_dir(), thread_namespace(), std::env::var are arbitrary-valued stubs",
    ],
    items=[
        dict(kind="closure", file=CFG, within="fn sanitize_namespace", index=0,
             sig="fn sanitize_char(c: char) -> (r: char)",
             ensures=[("C14:closure_maps_to_allowed", "allowed_char(r)"),
                      ("C14:closure_identity_on_allowed", "r == sanitize_char_spec(c)")]),
        dict(kind="model", file="c14_map_stub.rs"),
        dict(kind="fn", file=CFG, path="fn checksum64",
             rules=[dict(rule="R8", kind="re", pat=r"for &b in data \{", repl="for i in 0..data.len() { let b = data[i];",
                         why="for &b in slice -> indexed loop")]),
        dict(kind="fn", file=CFG, path="fn sanitize_namespace", rules=R9_SANITIZE,
             hints=[dict(after="let mut sanitized: String = str_map_chars_sanitize_char(key);",
                         text="    proof { lemma_mapped_allowed(key@, sanitized@); }"),
                    dict(after="sanitized = format_ns_hex(checksum64(key.as_bytes()));",
                         text="        proof { lemma_ns_hex_safe_ex(sanitized@); }"),
                    dict(before="    sanitized\n}", text="    proof { lemma_allowed_safe(sanitized@); }")],
             ensures=[("C14:sanitized_is_safe_component", "safe_component(ret@)"),
                      ("C14:sanitized_all_allowed", "all_allowed(ret@)"),
                      ("C14,C13:sanitize_identity_on_clean_keys",
                       "all_allowed(key@) && !all_chars(key@, '_') && !all_chars(key@, '.') ==> ret@ == key@")]),
        dict(kind="struct", file=PATHS, struct="WalPathManager"),
        dict(kind="fn", file=PATHS, path="impl WalPathManager / fn for_key", rules=R9_PUSH, proof_prologue="broadcast use lemma_push_inside;",
             ensures=[("C14,C13:for_key_root_strictly_inside", "strictly_inside(path_view(&ret.root), data_dir_view())"),
                      ("C14,C13:for_key_root_is_one_level", "path_view(&ret.root).len() == data_dir_view().len() + 1")]),
        dict(kind="fn", file=PATHS, path="impl WalPathManager / fn with_data_dir", rules=R9_PUSH, proof_prologue="broadcast use lemma_push_inside;",
             ensures=[("C14,C13:with_data_dir_key_strictly_inside",
                       "key.is_some() ==> strictly_inside(path_view(&ret.root), path_view(&data_dir)) && path_view(&ret.root).len() == path_view(&data_dir).len() + 1"),
                      ("C14:with_data_dir_nokey_is_dir", "key.is_none() ==> path_view(&ret.root) == path_view(&data_dir)")]),
        dict(kind="fn", file=PATHS, path="impl WalPathManager / fn default",
             proof_prologue="broadcast use lemma_push_inside;",
             rules=R9_PUSH + [dict(rule="R9", kind="lit", old="std::env::var(", new="env_var(", why="env var -> arbitrary stub")],
             ensures=[("C14,C13:default_root_inside_or_dir",
                       "path_view(&ret.root) == data_dir_view() || (strictly_inside(path_view(&ret.root), data_dir_view()) && path_view(&ret.root).len() == data_dir_view().len() + 1)")]),
    ],
)
