# batch_read_for_topic, region "Hydrate from index if needed" + "Fold persisted tail into sealed blocks" (walrus_read.rs ~620-668).
# C06 (a restart is invisible to a batch consumer), C09.
from specs.units._core import *
from specs.units.batch_read_parse import BLOCK_MIRROR
from specs.units.core_persist import COLINFO_MIRROR
from specs.units.read_next import RN_RULES
H_RULES = [r for r in RN_RULES if r.get('rule') in ('R8',)] + [
    dict(rule='R2', kind='re', dotall=True, pat=r"if let Ok\(idx_guard\) = self\.read_offset_index\.read\(\) \{", repl="{ let idx_guard = &self.read_offset_index;", why='read lock elided'),
]

WR = RT + "walrus_read.rs"
UNIT = dict(
    name="batch_read_hydrate",
    props=["C06", "C09", "C02"],
    implicit_props=["C06", "C09"],  # the properties every obligation of the unit counts for; the others only through labelled clauses
    prelude=["core_types.rs", "str_ext.rs", "engine.rs"],
    assumptions=[
        "R14 region: from `// Hydrate from index if needed` to the snapshot of the cursor (`let c_chain`); the column cell is the parameter `info` (A-SEQ)",
        "WalIndex::get as a ghost map lookup; the chain was produced by the recovery scan (unit recovery_scan)",
    ],
    items=[
        BLOCK_MIRROR, COLINFO_MIRROR,
        dict(kind="prelude", file="engine_read.rs"),
        dict(kind="model", file="hydrate_model.rs"),
        dict(kind="mirror", file=RT + "walrus.rs", struct="Walrus", fields=[("read_offset_index", "Arc<RwLock<WalIndex>>", "WalIndex")]),
        dict(kind="region", file=WR, within="impl Walrus / fn batch_read_for_topic", impl="Walrus", start="// Hydrate from index if needed", end="let c_chain = info.chain.clone();",
             sig="fn batch_read_hydrate(&self, info: &mut ColReaderInfo, col_name: &str)",
             pre="const TAIL_FLAG: u64 = 1u64 << 63;\n",
             rules=H_RULES,
             requires=[("", "forall|i: int| 0 <= i < old(info).chain@.len() ==> (#[trigger] old(info).chain@[i]).used <= 0x4000_0000_0000")],
             ensures=[
                 ("C06,C09:a_persisted_tail_position_inside_a_block_that_is_sealed_now_becomes_that_block_and_offset",
                  "(!old(info).hydrated_from_index && self.read_offset_index.store@.contains_key(col_name@) && is_tail(self.read_offset_index.store@[col_name@])) ==> "
                  "forall|i: int| first_idx_with_id(old(info).chain@, tail_id(self.read_offset_index.store@[col_name@]), i) ==> final(info).cur_block_idx == i && final(info).cur_block_offset == min64(self.read_offset_index.store@[col_name@].1, old(info).chain@[i].used)"),
                 ("C06,C09:a_persisted_tail_position_in_a_block_still_unknown_waits_behind_the_whole_chain",
                  "(!old(info).hydrated_from_index && self.read_offset_index.store@.contains_key(col_name@) && is_tail(self.read_offset_index.store@[col_name@]) && (forall|i: int| 0 <= i < old(info).chain@.len() ==> old(info).chain@[i].id != tail_id(self.read_offset_index.store@[col_name@]))) ==> "
                  "final(info).cur_block_idx == old(info).chain@.len() && final(info).cur_block_offset == 0 && final(info).tail_block_id == tail_id(self.read_offset_index.store@[col_name@]) && final(info).tail_offset == self.read_offset_index.store@[col_name@].1"),
                 ("C06,C09:a_persisted_chain_position_is_restored_clamped_to_the_recovered_chain",
                  "(!old(info).hydrated_from_index && self.read_offset_index.store@.contains_key(col_name@) && !is_tail(self.read_offset_index.store@[col_name@])) ==> ({ let p = self.read_offset_index.store@[col_name@]; "
                  "if p.0 < old(info).chain@.len() { final(info).cur_block_idx == p.0 && final(info).cur_block_offset == min64(p.1, old(info).chain@[p.0 as int].used) } else { final(info).cur_block_idx == old(info).chain@.len() && final(info).cur_block_offset == 0 } })"),
                 ("C02,C06:hydration_happens_once_and_never_touches_the_chain", "final(info).chain == old(info).chain && (old(info).hydrated_from_index ==> *final(info) == *old(info))"),
             ]),
    ],
)
