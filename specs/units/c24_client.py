# C24: client protocol framing (distributed-walrus/src/client.rs), de-asynced (R13).
CL = "distributed-walrus/src/client.rs"

R13 = [
    dict(rule="R13", kind="re", pat=r"\.await", repl="", why="await removed: the connection handler runs as one task with no interleaving"),
    dict(rule="R5", kind="re", pat=r"u32::from_le_bytes\(", repl="u32_from_le_bytes(", min=0, why="from_le_bytes -> stub with le32 spec"),
    dict(rule="R5", kind="re", pat=r"(\w+)\.to_le_bytes\(\)", repl=r"u32_to_le_bytes(\1)", min=0, why="to_le_bytes -> stub with le32 spec"),
    dict(rule="R5", kind="re", pat=r"(\w+)\.kind\(\) == std::io::ErrorKind::UnexpectedEof", repl=r"\1.kind_is_unexpected_eof()", min=0, why="io::Error kind test -> stub predicate"),
    dict(rule="R9", kind="re", pat=r"String::from_utf8\(", repl="string_from_utf8(", min=0, why="String::from_utf8 -> arbitrary-Result stub"),
    dict(rule="R9", kind="re", pat=r"\.trim_end\(\)", repl=r".vx_trim_end()", min=0, why="trim_end -> stub (result uninterpreted)"),
    dict(rule="R9", kind="re", pat=r"\.chars\(\)\.count\(\)", repl=r".vx_chars_count()", min=0, why="chars().count() -> stub (= number of chars)"),
    dict(rule="R9", kind="re", pat=r"std::str::from_utf8\(", repl="str_from_utf8(", min=0, why="str::from_utf8 -> arbitrary-Result stub"),
    dict(rule="R9", kind="re", pat=r'format!\("ERR \{\}", e\)', repl="format_err(e)", min=0, why='format!("ERR {}", e) -> stub'),
    dict(rule="R9", kind="re", pat=r"(\w+)\.as_bytes\(\)", repl=r"str_as_bytes(\1)", min=0, why="as_bytes -> stub (UTF-8 length uninterpreted)"),
    dict(rule="R5", kind="re", pat=r"return Err\(e\.into\(\)\);", repl="return Err(io_into_anyhow(e));", min=0, why="io::Error -> anyhow conversion stub"),
]
SIG = [dict(pat=r"async fn", repl="fn", min=0), dict(pat=r"TcpStream", repl="SockG", min=0), dict(pat=r"Arc<NodeController>", repl="CtrlH", min=0),
       dict(pat=r"Result<\(\)>", repl="AResult<()>", min=0)]

UNIT = dict(
    name="c24_client",
    props=["C24"],
    prelude=[],
    model=["c24_model.rs"],
    assumptions=[
        "R13: async fn / .await removed - one connection is handled by one task, nothing interleaves between its reads and writes",
        "tokio read_exact / write_all semantics as specified on the ghost stream SockG (all-or-error reads)",
        "handle_command is an arbitrary function here; not executable offline (tokio missing)",
    ],
    items=[
        dict(kind="lines", file=CL, patterns=[r"^const MAX_FRAME_LEN: usize = 64 \* 1024;$"]),
        dict(kind="fn", file=CL, path="fn send_response", sig_rules=SIG, rules=R13,
             ensures=[("C24:response_is_one_length_prefixed_frame", "(ret is Ok && str_utf8_len(message@) <= u32::MAX) ==> exists|l: Seq<u8>, b: Seq<u8>| l.len() == 4 && le32(l) == b.len() && final(socket).out@ == old(socket).out@ + #[trigger] (l + b)"),
                      ("C24:send_response_reads_nothing", "final(socket).rpos == old(socket).rpos && final(socket).input == old(socket).input")],
             hints=[dict(before="    Ok(())\n}", text="    proof { let o0 = old(socket).out@; let l = socket.out@.subrange(o0.len() as int, o0.len() as int + 4); let b = bytes@; assert(socket.out@ =~= o0 + (l + b)); }")]),
        dict(kind="fn", file=CL, path="fn handle_connection", sig_rules=SIG + [dict(pat=r"mut socket: SockG", repl="socket: &mut SockG")],
             rules=[dict(rule="R13", kind="lit", old="&mut socket", new="&mut *socket", why="socket is the &mut parameter")] + R13,
             requires=[("", "sock_wf(*old(socket))"), ("", "old(socket).rpos@ == 0"), ("", "old(socket).out@.len() == 0"), ("", "responses_fit()")],
             ensures=[("C24:clean_eof_only_after_whole_frames", "ret is Ok ==> exists|p: int, k: nat| boundary(final(socket).input@, p, k) && p <= final(socket).input@.len() < p + 4 && boundary(final(socket).out@, final(socket).out@.len() as int, k)")],
             hints=[dict(before="    loop", text="    proof { assert(boundary(socket.input@, socket.rpos@, 0nat) && boundary(socket.out@, socket.out@.len() as int, 0nat)); }"),
                    dict(before="                return Ok(());", text="                proof { assert(boundary(socket.input@, p0, k0) && boundary(socket.out@, socket.out@.len() as int, k0)); }"),
                    dict(before="        let mut len_buf = [0u8; 4];", text="        let ghost p0 = socket.rpos@; let ghost k0 = choose|k: nat| boundary(socket.input@, socket.rpos@, k) && boundary(socket.out@, socket.out@.len() as int, k); let ghost out0 = socket.out@;"),
                    dict(before="            continue;", text="            proof { lemma_frame_done(socket.input@, p0, k0, socket.rpos@, out0, socket.out@); }"),
                    dict(before='send_response(&mut *socket, "ERR invalid frame length")?;', count=None,
                         text="            assert(frame_len == 0 || frame_len > 65536); //@L C24:only_zero_or_over_64KiB_lengths_are_rejected_unread"),
                    dict(after="send_response(&mut *socket, &response)?;", text="        proof { lemma_frame_done(socket.input@, p0, k0, socket.rpos@, out0, socket.out@); }")],
             loops={0: dict(kind="loop", invariant=[
                 ("", "sock_wf(*socket)"), ("", "socket.input == old(socket).input"), ("", "responses_fit()"),
                 ("C24:one_response_per_frame_and_reader_on_frame_boundary", "exists|k: nat| boundary(socket.input@, socket.rpos@, k) && boundary(socket.out@, socket.out@.len() as int, k)"),
             ], decreases="socket.input@.len() - socket.rpos@")}),
    ],
)
