# Writer::write (writer.rs 54-133): single append incl. block rotation.  C04, C01, C07, C10.
from specs.units._core import *
from specs.units.batch_read_parse import BLOCK_MIRROR, CONSTS

WRT = RT + "writer.rs"
CFG = "src/wal/config.rs"
BLK = "src/wal/block.rs"

W_RULES = [
    dict(rule="R4", kind="re", pat=r"self\.is_batch_writing\.load\(Ordering::\w+\)", repl="self.is_batch_writing", why="atomic load -> field (SEQ)"),
    dict(rule="R2", kind="re", dotall=True, pat=r"self\.current_block\.lock\(\)\.map_err\(\|_\| \{\s*std::io::Error::new\([^;]*?\)\s*\}\)\?", repl="&mut self.current_block", why="Mutex guard -> &mut field"),
    dict(rule="R2", kind="re", dotall=True, pat=r"self\.current_offset\.lock\(\)\.map_err\(\|_\| \{\s*std::io::Error::new\([^;]*?\)\s*\}\)\?", repl="&mut self.current_offset", why="Mutex guard -> &mut field"),
    dict(rule="R7", kind="re", pat=r"FileStateTracker::set_block_unlocked\(", repl="g.set_block_unlocked(", why="tracker call -> explicit globals"),
    dict(rule="R6", kind="re", pat=r"(\w+)\.mmap\.flush\(\)", repl=r"sys_flush(sys, &\1.mmap)", min=0, why="SharedMmap::flush -> ghost-disk stub"),
    dict(rule="R6", kind="re", pat=r"(?<![\w.])(\w+)\.flush\(\)", repl=r"sys_flush(sys, &\1)", min=0, why="SharedMmap::flush on a local handle -> ghost-disk stub (whichever handle is flushed, the C10 clause says which file must be synced)"),
    dict(rule="R5", kind="re", pat=r"unsafe \{ self\.allocator\.alloc_block\((\w+)\) \}", repl=r"self.allocator.alloc_block(sys, Ghost(self.reader.chain_log@), Ghost(*block), \1)", why="allocator call (unsafe fn; its SAFETY condition is the writer holding both mutexes)"),
    dict(rule="R6", kind="re", pat=r"block\.write\(", repl="block.write(sys, ", why="Block::write gets the ghost disk"),
    dict(rule="R6", kind="re", pat=r"block\.zero_range\(", repl="block.zero_range(sys, ", min=0, why="Block::zero_range gets the ghost disk"),
    dict(rule="R2", kind="re", pat=r"&self\.col\b", repl="self.col.as_str()", why="&String -> &str"),
] + IOERR_RULES

UNIT = dict(
    name="writer_write",
    props=["C04", "C01", "C07", "C10", "C06"],
    implicit_props=["C04", "C01", "C07", "C10"],
    prelude=["core_types.rs", "str_ext.rs", "engine.rs", "sys_model.rs"],
    assumptions=[
        "A-SEQ / A-LOCK: the two writer mutexes are held for the whole call (they are, by construction) and nobody else touches the active block",
        "assumed contracts: Block::write (proved in block_rw), alloc_block (proved in core_trackers; freshness of the new byte range assumed), append_block_to_chain / set_block_unlocked / publisher.send as ghost logs",
    ],
    items=[
        CONSTS, BLOCK_MIRROR,
        dict(kind="struct", file=BLK, struct="Entry"),
        dict(kind="struct", file=BLK, struct="Metadata"),
        dict(kind="struct", file=CFG, struct="FsyncSchedule", attrs=["#[derive(Clone, Copy)]"]),
        dict(kind="prelude", file="rkyv.rs"),
        dict(kind="model", file="rkyv_write.rs"),
        dict(kind="model", file="bytes_model_d.rs"),
        dict(kind="model", file="block_rw_model.rs"),
        dict(kind="model", file="writer_model.rs"),
        dict(kind="mirror", file=WRT, struct="Writer", fields=[
            ("allocator", "Arc<BlockAllocator>", "AllocH"), ("reader", "Arc<Reader>", "ReaderH"), ("publisher", "Arc<mpsc::Sender<String>>", "SenderH"),
            ("col", "String", "String"), ("current_block", "Mutex<Block>", "Block"), ("current_offset", "Mutex<u64>", "u64"),
            ("fsync_schedule", "FsyncSchedule", "FsyncSchedule"), ("is_batch_writing", "AtomicBool", "bool")]),
        dict(kind="fn", file=WRT, path="impl Writer / fn write", sig_rules=[dict(pat=r"&self,", repl="&mut self, sys: &mut Sys, g: &mut GlobalsW,")] + IOERR_SIG,
             rules=W_RULES,
             hints=[
                 dict(before="        let mut block = &mut self.current_block;", text="""        let ghost log0 = self.reader.chain_log@;
        let ghost blk0 = self.current_block;
        let ghost cur0 = self.current_offset;
        let ghost files0 = sys.files@;
        let ghost col0 = self.col@;"""),
                 dict(after="            *cur = 0;\n        }", text="""        let ghost log1 = self.reader.chain_log@;
        let ghost blk1 = *block;
        let ghost cur1 = *cur;
        proof {
            // after a rotation the sealed block carries exactly what the active block held, and the new block is empty
            assert(chain_payloads(log1, col0, files0) + payloads_d(files0[blk1.mmap.file], blk1.offset as int, blk1.offset + cur1)
                   == chain_payloads(log0, col0, files0) + payloads_d(files0[blk0.mmap.file], blk0.offset as int, blk0.offset + cur0)) by {
                if log1 != log0 {
                    assert(log1.drop_last() =~= log0);
                    assert(chain_payloads(log1, col0, files0) == chain_payloads(log0, col0, files0) + payloads_d(files0[blk0.mmap.file], blk0.offset as int, blk0.offset + cur0));
                    assert(payloads_d(files0[blk1.mmap.file], blk1.offset as int, blk1.offset + cur1) =~= Seq::<Seq<u8>>::empty());
                    assert(chain_payloads(log1, col0, files0) + Seq::<Seq<u8>>::empty() =~= chain_payloads(log1, col0, files0));
                }
            }
        }"""),
                 dict(after="        *cur += need;", text="""        let ghost files2 = sys.files@;
        proof {
            let f = blk1.mmap.file;
            let a = blk1.offset + cur1;
            let d1 = files0[f];
            let d2 = files2[f];
            assert(d2.len() == d1.len());
            assert forall|i: int| 0 <= i < d1.len() && !(a <= i < a + need) implies #[trigger] d2[i] == d1[i] by {}
            lemma_packed_append(d1, d2, blk1.offset as int, a, data@, col0, hdr_meta_d(d2, a as int).next_block_start);
            lemma_chain_frame(log1, col0, files0, files2, f, a, a + need);
        }"""),
                 dict(before="                    return Err(e);", count=None, text="""                    proof {
                        // rollback after a failed SyncEach flush: the header is zeroed behind the restored offset, nothing before it changed
                        let files3 = sys.files@;
                        let f = blk1.mmap.file;
                        let a = blk1.offset + cur1;
                        assert forall|i: int| 0 <= i < files0[f].len() && !(a <= i < a + need) implies #[trigger] files3[f][i] == files0[f][i] by {}
                        lemma_payloads_frame(files0[f], files3[f], blk1.offset as int, a);
                        lemma_chain_frame(log1, col0, files0, files3, f, a, a + need);
                    }"""),
             ],
             requires=[("", "wf_writer(old(self).current_block, old(self).current_offset, *old(sys))"),
                       ("", "wf_chain(old(self).reader.chain_log@, old(self).current_block, old(self).current_offset, *old(sys))"),
                       ("", "data@.len() <= 0x4000_0000_0000")],
             ensures=[
                 ("C04:failed_append_leaves_no_trace", "ret is Err ==> topic_log(*final(self), *final(sys)) == topic_log(*old(self), *old(sys))"),
                 ("C01:successful_append_extends_the_topic_log_by_exactly_this_payload", "ret is Ok ==> topic_log(*final(self), *final(sys)) == topic_log(*old(self), *old(sys)).push(data@)"),
                 ("C01,C07:writer_stays_wellformed", "wf_writer(final(self).current_block, final(self).current_offset, *final(sys)) && wf_chain(final(self).reader.chain_log@, final(self).current_block, final(self).current_offset, *final(sys))"),
                 ("C06,C07:the_first_header_of_a_block_records_the_end_of_that_block",
                  "(ret is Ok && final(self).current_offset == PREFIX_META_SIZE + data@.len()) ==> entry_written(final(sys).files@[final(self).current_block.mmap.file], final(self).current_block.offset + final(self).current_offset - (PREFIX_META_SIZE + data@.len()), data@, old(self).col@, (final(self).current_block.offset + final(self).current_block.limit) as u64)"),
                 ("C04:append_never_renames_the_topic", "final(self).col == old(self).col"),
                 ("C10:with_SyncEach_an_acknowledged_append_was_flushed_after_it_was_written", "(old(self).fsync_schedule is SyncEach && ret is Ok) ==> final(sys).synced@.contains(final(self).current_block.mmap.file)"),
             ]),
    ],
)
