# Writer::write (writer.rs 54-133): single append incl. block rotation.  C04, C01, C07, C10.
from specs.units._core import *
from specs.units.batch_read_parse import BLOCK_MIRROR, CONSTS

WRT = RT + "writer.rs"
CFG = "src/wal/config.rs"
BLK = "src/wal/block.rs"

W_RULES = [
    dict(rule="R4", kind="re", pat=r"self\.is_batch_writing\.load\(Ordering::\w+\)", repl="self.is_batch_writing", why="atomic load -> field (SEQ)"),
    dict(rule="R2", kind="re", dotall=True, pat=r"self\.current_block\.lock\(\)\.map_err\(\|_\| \{\s*std::io::Error::new\([^;]*?\)\s*\}\)\?", repl="&mut self.current_block", why="Mutex guard -> &mut field"),
    dict(rule="R2", kind="re", dotall=True, pat=r"self\.current_offset\.lock\(\)\.map_err\(\|_\| \{\s*std::io::Error::new\([^;]*?\)\s*\}\)\?", repl="&mut self.current_offset", why="Mutex guard -> &mut field"),
    dict(rule="R7", kind="re", pat=r"FileStateTracker::set_block_unlocked\(", repl="g.set_block_unlocked(", why="tracker call -> explicit globals"),
    dict(rule="R6", kind="re", pat=r"(\w+)\.mmap\.flush\(\)", repl=r"sys_flush(sys, &\1.mmap)", why="SharedMmap::flush -> ghost-disk stub"),
    dict(rule="R5", kind="re", pat=r"unsafe \{ self\.allocator\.alloc_block\((\w+)\) \}", repl=r"self.allocator.alloc_block(sys, \1)", why="allocator call (unsafe fn; its SAFETY condition is the writer holding both mutexes)"),
    dict(rule="R6", kind="re", pat=r"block\.write\(", repl="block.write(sys, ", why="Block::write gets the ghost disk"),
    dict(rule="R2", kind="re", pat=r"&self\.col\b", repl="self.col.as_str()", why="&String -> &str"),
] + IOERR_RULES

UNIT = dict(
    name="writer_write",
    wip=True,
    props=["C04", "C01", "C07", "C10"],
    prelude=["core_types.rs", "str_ext.rs", "engine.rs", "sys_model.rs"],
    assumptions=[
        "A-SEQ / A-LOCK: the two writer mutexes are held for the whole call (they are, by construction) and nobody else touches the active block",
        "assumed contracts: Block::write (proved in block_rw), alloc_block (proved in core_trackers; freshness of the new byte range assumed), append_block_to_chain / set_block_unlocked / publisher.send as ghost logs",
    ],
    items=[
        CONSTS, BLOCK_MIRROR,
        dict(kind="struct", file=BLK, struct="Entry"),
        dict(kind="struct", file=BLK, struct="Metadata"),
        dict(kind="struct", file=CFG, struct="FsyncSchedule", attrs=["#[derive(Clone, Copy)]"]),
        dict(kind="prelude", file="rkyv.rs"),
        dict(kind="model", file="rkyv_write.rs"),
        dict(kind="model", file="bytes_model_d.rs"),
        dict(kind="model", file="block_rw_model.rs"),
        dict(kind="model", file="writer_model.rs"),
        dict(kind="mirror", file=WRT, struct="Writer", fields=[
            ("allocator", "Arc<BlockAllocator>", "AllocH"), ("reader", "Arc<Reader>", "ReaderH"), ("publisher", "Arc<mpsc::Sender<String>>", "SenderH"),
            ("col", "String", "String"), ("current_block", "Mutex<Block>", "Block"), ("current_offset", "Mutex<u64>", "u64"),
            ("fsync_schedule", "FsyncSchedule", "FsyncSchedule"), ("is_batch_writing", "AtomicBool", "bool")]),
        dict(kind="fn", file=WRT, path="impl Writer / fn write", sig_rules=[dict(pat=r"&self,", repl="&mut self, sys: &mut Sys, g: &mut GlobalsW,")] + IOERR_SIG,
             rules=W_RULES,
             requires=[("", "wf_writer(old(self).current_block, old(self).current_offset, *old(sys))"),
                       ("", "data@.len() <= 0x4000_0000_0000")],
             ensures=[
                 ("C04:failed_append_leaves_no_trace",
                  "ret is Err ==> final(self).current_block == old(self).current_block && final(self).current_offset == old(self).current_offset && final(self).reader.chain_log == old(self).reader.chain_log && final(sys).files@ == old(sys).files@"),
                 ("C01,C07:writer_stays_wellformed", "wf_writer(final(self).current_block, final(self).current_offset, *final(sys))"),
             ]),
    ],
)
