// Native replay of operation histories against the REAL engine (crate under test by path), compared with the
// abstract view of DESIGN 3.4: per topic a log of payloads and a cursor.  One scenario per input line:
//   <name> ; <mode> ; op op op ...
// mode: strict | alo<N> (AtLeastOnce{persist_every:N})       backend: default FD unless env WALRUS_REPLAY_MMAP=1
// ops:  A:<t>:<size>            append one entry of <size> bytes            (expects Ok)
//       B:<t>:<s1>,<s2>,..      batch append                                (expects Ok)
//       E:<t>:<size>            append that must FAIL (and leave no trace); clears all injected faults afterwards
//       EB:<t>:<s1>,<s2>,..     batch append that must FAIL (and leave no trace)
//       F:<KIND>:<0|1>          switch an injected fault (FSYNC, CREATE, RENAME) on/off (needs LD_PRELOAD=libwalrusfault.so)
// mode suffix "+sync" selects FsyncSchedule::SyncEach (e.g. strict+sync); "+mmap" selects the mmap backend for this scenario
//       R:<t>                   consuming read_next                         (must return log[pos], pos+=1, or None iff pos==len)
//       P:<t>                   peek read_next(checkpoint=false)            (must return log[pos] or None; changes nothing)
//       X:<t>:<budget>:<chk>    stateful batch_read_for_topic(budget, chk, None)
//       S:<t>:<budget>:<chk>:<off> stateless batch read at byte offset <off> (must change nothing)
//       O                       drop the instance and reopen the same directory (30 ms later); OI: reopen immediately
//       D:<t> / C:<t>           mark_topic_dirty / mark_topic_clean; after every op and every reopen topic_is_clean must
//                               equal the state set by the latest append (dirty) / mark on that topic
//       K:<key>                 (first op only) use namespace key <key>
// After every op the per-topic counts are compared with len-pos.  Output: one JSON line per scenario, then a summary.
use std::collections::BTreeMap;
use std::path::PathBuf;
use walrus_rust::{FsyncSchedule, ReadConsistency, Walrus};

fn payload(topic: &str, seq: usize, size: usize) -> Vec<u8> {
    let mut v = Vec::with_capacity(size);
    let tag = (topic.bytes().fold(7u32, |a, b| a.wrapping_mul(31).wrapping_add(b as u32)) as usize).wrapping_add(seq * 131);
    for i in 0..size { v.push(((tag + i * 7) % 251) as u8); }
    if size >= 8 { v[..8].copy_from_slice(&(seq as u64).to_le_bytes()); }
    v
}

#[derive(Default)]
struct Topic { log: Vec<Vec<u8>>, pos: usize, dirty: bool, resync: Option<usize> /* after an AtLeastOnce reopen: max redelivery */ }

fn open(dir: &PathBuf, key: &Option<String>, mode: ReadConsistency) -> std::io::Result<Walrus> {
    let sched = if std::env::var("WALRUS_REPLAY_SYNC_EACH").is_ok() { FsyncSchedule::SyncEach } else { FsyncSchedule::NoFsync };
    let mut b = Walrus::builder().data_dir(dir.clone()).consistency(mode).fsync_schedule(sched);
    if let Some(k) = key { b = b.key(k); }
    b.build()
}

fn esc(s: &str) -> String {
    let mut o = String::new();
    for c in s.chars() {
        match c {
            '"' => o.push_str("\\\""),
            '\\' => o.push_str("\\\\"),
            c if (c as u32) < 0x20 || (c as u32) > 0x7e => { for u in c.encode_utf16(&mut [0u16; 2]).iter() { o.push_str(&format!("\\u{:04x}", u)); } }
            c => o.push(c),
        }
    }
    o
}

fn run(name: &str, mode_full: &str, ops: &[&str], base: &PathBuf) -> Result<(), String> {
    let mmap_mode = mode_full.contains("+mmap");
    let mode_full = &mode_full.replace("+mmap", "");
    if mmap_mode || std::env::var("WALRUS_REPLAY_MMAP").is_ok() { walrus_rust::disable_fd_backend(); } else { walrus_rust::enable_fd_backend(); }
    let mode_s = mode_full.trim_end_matches("+sync");
    if mode_full.ends_with("+sync") { unsafe { std::env::set_var("WALRUS_REPLAY_SYNC_EACH", "1"); } } else { unsafe { std::env::remove_var("WALRUS_REPLAY_SYNC_EACH"); } }
    let mode = if mode_s == "strict" { ReadConsistency::StrictlyAtOnce } else {
        ReadConsistency::AtLeastOnce { persist_every: mode_s.trim_start_matches("alo").parse().map_err(|_| "bad mode")? } };
    let strict = mode_s == "strict";
    let dir = base.join(name);
    let _ = std::fs::remove_dir_all(&dir);
    std::fs::create_dir_all(&dir).map_err(|e| e.to_string())?;
    let mut key: Option<String> = None;
    let mut ops = ops.to_vec();
    if let Some(first) = ops.first() { if first.starts_with("K:") { key = Some(first[2..].to_string()); ops.remove(0); } }
    let mut wal = Some(open(&dir, &key, mode).map_err(|e| format!("open failed: {e}"))?);
    let mut topics: BTreeMap<String, Topic> = BTreeMap::new();
    // after a reopen in AtLeastOnce mode up to persist_every entries may be redelivered: pos becomes a range
    for (i, op) in ops.iter().enumerate() {
        let f: Vec<&str> = op.split(':').collect();
        let w = wal.as_ref().unwrap();
        let fail = |m: String| Err(format!("op #{} `{}`: {}", i, op, m));
        match f[0] {
            "A" => {
                let t = topics.entry(f[1].to_string()).or_default();
                let p = payload(f[1], t.log.len(), f[2].parse().unwrap());
                if let Err(e) = w.append_for_topic(f[1], &p) { return fail(format!("append failed: {e}")); }
                t.log.push(p);
                t.dirty = true;
            }
            "D" => { w.mark_topic_dirty(f[1]); topics.entry(f[1].to_string()).or_default().dirty = true; }
            "C" => { w.mark_topic_clean(f[1]); topics.entry(f[1].to_string()).or_default().dirty = false; }
            "F" => {
                // fault injection through the LD_PRELOAD seam (replay/faultlib): F:<FSYNC|CREATE|RENAME>:<0|1>
                unsafe { std::env::set_var(format!("WALRUS_FAULT_{}", f[1]), f[2]); }
            }
            "E" => {
                // an append that must be rejected (e.g. larger than the 1 GiB block cap); it must leave no trace
                let p = vec![0x5au8; f[2].parse().unwrap()];
                let r = w.append_for_topic(f[1], &p);
                for v in ["FSYNC", "CREATE", "RENAME"] { unsafe { std::env::remove_var(format!("WALRUS_FAULT_{}", v)); } }
                if r.is_ok() { return fail("append unexpectedly succeeded".into()); }
                // a rejected append may or may not leave the topic marked dirty (either is conservative): adopt what is reported
                topics.entry(f[1].to_string()).or_default().dirty = !w.topic_is_clean(f[1]);
            }
            "EB" => {
                // a batch append that must FAIL and leave no trace
                let ps: Vec<Vec<u8>> = f[2].split(',').map(|s| vec![0x5bu8; s.parse().unwrap()]).collect();
                let refs: Vec<&[u8]> = ps.iter().map(|v| v.as_slice()).collect();
                let r = w.batch_append_for_topic(f[1], &refs);
                for v in ["FSYNC", "CREATE", "RENAME"] { unsafe { std::env::remove_var(format!("WALRUS_FAULT_{}", v)); } }
                if r.is_ok() { return fail("batch append unexpectedly succeeded".into()); }
                // a rejected append may or may not leave the topic marked dirty (either is conservative): adopt what is reported
                topics.entry(f[1].to_string()).or_default().dirty = !w.topic_is_clean(f[1]);
            }
            "B" => {
                let t = topics.entry(f[1].to_string()).or_default();
                let ps: Vec<Vec<u8>> = f[2].split(',').enumerate().map(|(k, s)| payload(f[1], t.log.len() + k, s.parse().unwrap())).collect();
                let refs: Vec<&[u8]> = ps.iter().map(|v| v.as_slice()).collect();
                if let Err(e) = w.batch_append_for_topic(f[1], &refs) { return fail(format!("batch append failed: {e}")); }
                t.log.extend(ps);
                t.dirty = true;
            }
            "R" | "P" => {
                let t = topics.entry(f[1].to_string()).or_default();
                let consume = f[0] == "R";
                let got = w.read_next(f[1], consume).map_err(|e| format!("op #{i} read_next error: {e}"))?;
                if let (Some(n), Some(e)) = (t.resync, got.as_ref()) {
                    // AtLeastOnce after a restart: at most n entries may be delivered again, none may be skipped
                    let at = t.log.iter().position(|x| x == &e.data);
                    match at {
                        Some(a) if a <= t.pos && a + n >= t.pos => { t.pos = a; t.resync = None; }
                        _ => return fail(format!("after restart delivered log entry #{:?}; consumed before restart: {}, allowed redelivery: {}", at, t.pos, n)),
                    }
                }
                match (got, t.log.get(t.pos)) {
                    (Some(e), Some(want)) => {
                        if &e.data != want {
                            let at = t.log.iter().position(|x| x == &e.data);
                            return fail(format!("returned entry #{:?} of the log, expected entry #{}", at, t.pos));
                        }
                        if consume { t.pos += 1; }
                    }
                    (None, None) => {}
                    (None, Some(_)) => return fail(format!("returned None but entry #{} of {} is unconsumed", t.pos, t.log.len())),
                    (Some(e), None) => return fail(format!("returned an entry ({} bytes) but every entry was consumed", e.data.len())),
                }
            }
            "X" => {
                let t = topics.entry(f[1].to_string()).or_default();
                let budget: usize = f[2].parse().unwrap();
                let chk = f[3] == "1";
                let got = w.batch_read_for_topic(f[1], budget, chk, None).map_err(|e| format!("op #{i} batch read error: {e}"))?;
                if got.len() > 2000 { return fail(format!("returned {} entries (> 2000)", got.len())); }
                let total: usize = got.iter().map(|e| e.data.len()).sum();
                if total > budget && got.len() != 1 { return fail(format!("returned {} entries with {} payload bytes > budget {}", got.len(), total, budget)); }
                if got.is_empty() && t.pos < t.log.len() { return fail(format!("returned nothing but entry #{} of {} is unconsumed", t.pos, t.log.len())); }
                for (k, e) in got.iter().enumerate() {
                    match t.log.get(t.pos + k) {
                        Some(want) if want == &e.data => {}
                        _ => { let at = t.log.iter().position(|x| x == &e.data);
                               return fail(format!("entry {} of the batch is log entry #{:?}, expected #{}", k, at, t.pos + k)); }
                    }
                }
                if chk { t.pos += got.len(); }
            }
            "S" => {
                let budget: usize = f[2].parse().unwrap();
                let chk = f[3] == "1";
                let off: u64 = f[4].parse().unwrap();
                let _ = w.batch_read_for_topic(f[1], budget, chk, Some(off)).map_err(|e| format!("op #{i} stateless read error: {e}"))?;
            }
            "O" | "OI" => {
                drop(wal.take());
                if f[0] == "O" { std::thread::sleep(std::time::Duration::from_millis(30)); }
                wal = Some(open(&dir, &key, mode).map_err(|e| format!("reopen failed: {e}"))?);
                if !strict {
                    let n: usize = mode_s.trim_start_matches("alo").parse().unwrap_or(1).max(1);
                    for t in topics.values_mut() { t.resync = Some(n); }
                }
            }
            _ => return fail("unknown op".into()),
        }
        let w = wal.as_ref().unwrap();
        for (name, t) in topics.iter() {
            if w.topic_is_clean(name) == t.dirty {
                return fail(format!("topic {} reports clean={}, but the latest change made it {}", name, t.dirty, if t.dirty { "dirty" } else { "clean" }));
            }
        }
        for (name, t) in topics.iter() {
            if t.resync.is_some() || !strict && ops[..=i].contains(&"O") { continue; }
            let c = w.get_topic_entry_count(name);
            if c as usize != t.log.len() - t.pos {
                return fail(format!("count of topic {} is {}, expected {} (appended {} - consumed {})", name, c, t.log.len() - t.pos, t.log.len(), t.pos));
            }
        }
    }
    drop(wal);
    let _ = std::fs::remove_dir_all(&dir);
    Ok(())
}

fn main() {
    let args: Vec<String> = std::env::args().collect();
    let file = &args[1];
    let base = PathBuf::from(&args[2]);
    if std::env::var("WALRUS_REPLAY_MMAP").is_ok() { walrus_rust::disable_fd_backend(); }
    let text = std::fs::read_to_string(file).expect("scenario file");
    let mut tried = 0;
    for line in text.lines() {
        let line = line.trim();
        if line.is_empty() || line.starts_with('#') { continue; }
        let parts: Vec<&str> = line.split(';').map(|s| s.trim()).collect();
        let ops: Vec<&str> = parts[2].split_whitespace().collect();
        tried += 1;
        let r = std::panic::catch_unwind(std::panic::AssertUnwindSafe(|| run(parts[0], parts[1], &ops, &base)));
        let verdict = match r { Ok(Ok(())) => None, Ok(Err(e)) => Some(e), Err(_) => Some("panic".to_string()) };
        if let Some(e) = verdict {
            println!("{{\"found\":true,\"scenario\":\"{}\",\"mode\":\"{}\",\"ops\":\"{}\",\"failure\":\"{}\",\"tried\":{}}}", esc(parts[0]), esc(parts[1]), esc(parts[2]), esc(&e), tried);
            if std::env::var("WALRUS_REPLAY_ALL").is_err() { return; }
        }
    }
    println!("{{\"found\":false,\"tried\":{}}}", tried);
}
