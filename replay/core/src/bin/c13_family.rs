// Scenario for C13 (namespace isolation of reclamation bookkeeping): two instances with different keys live in
// one process.  Instance A fills and seals the 100 blocks of its first WAL file and consumes NOTHING.  Instance B
// does the same with its own topics and then consumes everything it wrote.  B's consumption must not make A's
// file reclaimable: after the reclaimer had time to run, A's first file must still exist and A must still be able
// to read its first entry.
use std::fs;
use std::path::{Path, PathBuf};
use std::thread;
use std::time::{Duration, Instant};
use walrus_rust::{FsyncSchedule, ReadConsistency, Walrus};

const BLOCK: usize = 10 * 1024 * 1024;
const BIG_LEN: usize = BLOCK - 520;

fn topic(p: &str, i: usize) -> String { format!("{}{:03}", p, i) }
fn small(p: &str, i: usize) -> Vec<u8> { format!("small-entry-of-{}-{:03}", p, i).into_bytes() }

fn wal_files(root: &Path) -> Vec<PathBuf> {
    let mut v: Vec<PathBuf> = fs::read_dir(root).map(|rd| rd.filter_map(|e| e.ok()).map(|e| e.path()).filter(|p| p.is_file())
        .filter(|p| { let n = p.file_name().unwrap().to_string_lossy().to_string(); !n.ends_with("_index.db") && !n.ends_with(".tmp") }).collect()).unwrap_or_default();
    v.sort();
    v
}
fn open(dir: &Path, key: &str) -> Walrus {
    Walrus::builder().data_dir(dir.to_path_buf()).key(key).consistency(ReadConsistency::StrictlyAtOnce)
        .fsync_schedule(FsyncSchedule::Milliseconds(1)).build().unwrap()
}
fn fill(w: &Walrus, p: &str) {
    for i in 0..100 { w.append_for_topic(&topic(p, i), &small(p, i)).unwrap(); }
    let big = vec![0xABu8; BIG_LEN];
    for i in 0..100 { w.append_for_topic(&topic(p, i), &big).unwrap(); }
}

fn main() {
    let dir = PathBuf::from(std::env::args().nth(1).expect("scratch dir")).join("c13");
    let _ = fs::remove_dir_all(&dir);
    fs::create_dir_all(&dir).unwrap();
    let a = open(&dir, "a");
    fill(&a, "a");
    let a_files = wal_files(&dir.join("a"));
    let a_file1 = a_files[0].clone();
    let b = open(&dir, "b");
    fill(&b, "b");
    for i in 0..100 {
        while b.read_next(&topic("b", i), true).unwrap().is_some() {}
    }
    let deadline = Instant::now() + Duration::from_secs(25);
    while Instant::now() < deadline && a_file1.exists() { thread::sleep(Duration::from_millis(100)); }
    let alive = a_file1.exists();
    drop(b);
    drop(a);
    let a2 = open(&dir, "a");
    let got = a2.read_next(&topic("a", 0), true).unwrap().map(|e| e.data);
    let ok = got == Some(small("a", 0));
    drop(a2);
    let _ = fs::remove_dir_all(&dir);
    if !alive || !ok {
        println!("{{\"found\":true,\"history\":\"instance a: 100 topics x (small + 10 MiB) appends, nothing consumed; instance b (same process, other key): same appends, everything consumed\",\"failure\":\"a's first WAL file still on disk: {}; after reopening a, read_next(a000) returned the first entry: {}\",\"tried\":1}}", alive, ok);
    } else {
        println!("{{\"found\":false,\"tried\":1}}");
    }
}
