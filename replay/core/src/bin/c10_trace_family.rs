// Scenario family for C10 (what is synced before an operation is acknowledged), by system-call trace: the LD_PRELOAD seam
// logs every positional write and every fsync/fdatasync with the file it hits.  Rule checked for each traced operation:
// every file the operation wrote to is fsynced AFTER its last write and before the operation returns.
//   case 1  SyncEach single appends (FD backend): each append = write then sync of the same file
//   case 2  a batch that crosses from the last block of one WAL file into a new file, portable path (io_uring made unavailable):
//           both files must be synced before the batch returns
//   case 3  the same history with io_uring: its writes are not visible to the seam, so the files written in case 2 (same
//           deterministic placement, compared by position in the directory listing) must all be synced
// usage: c10_trace_family <scratch>   (needs LD_PRELOAD=libwalrusfault.so)
use std::collections::BTreeSet;
use std::path::PathBuf;
use walrus_rust::{FsyncSchedule, ReadConsistency, Walrus};

fn open(dir: &PathBuf, s: FsyncSchedule) -> Walrus {
    Walrus::builder().data_dir(dir.clone()).consistency(ReadConsistency::StrictlyAtOnce).fsync_schedule(s).build().unwrap()
}
fn wal_files(dir: &PathBuf) -> Vec<String> {
    let mut v: Vec<String> = std::fs::read_dir(dir).unwrap().filter_map(|e| e.ok()).map(|e| e.path()).filter(|p| p.is_file())
        .filter(|p| p.file_name().unwrap().to_string_lossy().parse::<u64>().is_ok()).map(|p| p.to_string_lossy().to_string()).collect();
    v.sort();
    v
}
/// runs `op` with tracing on; returns (files written, files whose last write is followed by a sync), as paths
fn traced<F: FnOnce()>(trace: &PathBuf, op: F) -> (BTreeSet<String>, BTreeSet<String>, BTreeSet<String>) {
    let _ = std::fs::remove_file(trace);
    unsafe { std::env::set_var("WALRUS_TRACE_FILE", trace); }
    op();
    unsafe { std::env::remove_var("WALRUS_TRACE_FILE"); }
    let text = std::fs::read_to_string(trace).unwrap_or_default();
    let mut written = BTreeSet::new(); let mut dirty = BTreeSet::new(); let mut synced_any = BTreeSet::new();
    for l in text.lines() {
        let f: Vec<&str> = l.split(' ').collect();
        if f.len() < 2 { continue; }
        match f[0] { "W" => { written.insert(f[1].to_string()); dirty.insert(f[1].to_string()); }
                     "F" => { dirty.remove(f[1]); synced_any.insert(f[1].to_string()); } _ => {} }
    }
    (written, dirty, synced_any)
}
fn fill_to_last_block(w: &Walrus) {
    for i in 0..99 { w.append_for_topic(&format!("f{:02}", i), b"filler").unwrap(); }
    let big = vec![7u8; 1024 * 1024];
    for _ in 0..5 { w.append_for_topic("z", &big).unwrap(); }
}
fn main() {
    let base = PathBuf::from(std::env::args().nth(1).expect("scratch")).join("c10trace");
    let _ = std::fs::remove_dir_all(&base);
    std::fs::create_dir_all(&base).unwrap();
    let trace = base.join("trace.log");
    let mut tried = 0;
    let fail = |scenario: &str, history: &str, failure: String, tried: usize| {
        println!("{{\"found\":true,\"scenario\":\"{}\",\"history\":\"{}\",\"failure\":\"{}\",\"tried\":{}}}", scenario, history, failure.replace('"', "'"), tried);
    };
    // ---- case 1
    tried += 1;
    {
        let dir = base.join("synceach");
        let w = open(&dir, FsyncSchedule::SyncEach);
        w.append_for_topic("t", b"warm-up").unwrap();
        for k in 0..3 {
            let (written, dirty, _) = traced(&trace, || { w.append_for_topic("t", format!("entry-{}", k).as_bytes()).unwrap(); });
            if written.is_empty() || !dirty.is_empty() {
                fail("synceach_append_is_synced", "SyncEach, FD backend: append_for_topic returned Ok", format!("files written: {:?}; written but not synced afterwards: {:?}", written.len(), dirty), tried);
                let _ = std::fs::remove_dir_all(&base); return;
            }
        }
    }
    // ---- case 2: portable path
    tried += 1;
    let parts: Vec<Vec<u8>> = (0..3).map(|i| vec![i as u8 + 1; 4 * 1024 * 1024]).collect();
    let refs: Vec<&[u8]> = parts.iter().map(|v| v.as_slice()).collect();
    let written_idx: Vec<usize>;
    {
        let dir = base.join("portable");
        unsafe { std::env::set_var("WALRUS_FAULT_URING", "1"); }
        let w = open(&dir, FsyncSchedule::NoFsync);
        fill_to_last_block(&w);
        let (written, dirty, _) = traced(&trace, || { w.batch_append_for_topic("z", &refs).unwrap(); });
        unsafe { std::env::remove_var("WALRUS_FAULT_URING"); }
        let files = wal_files(&dir);
        written_idx = files.iter().enumerate().filter(|(_, f)| written.contains(*f)).map(|(i, _)| i).collect();
        if written.len() < 2 || !dirty.is_empty() {
            fail("batch_across_two_files_portable", "99 topics x 1 append, 5 MiB into the last block of the first WAL file, then a 3 x 4 MiB batch (portable path): Ok",
                 format!("the batch wrote to {} files; written but not synced before it returned: {:?}", written.len(), dirty.iter().map(|p| p.rsplit('/').next().unwrap().to_string()).collect::<Vec<_>>()), tried);
            let _ = std::fs::remove_dir_all(&base); return;
        }
    }
    // ---- case 3: io_uring path, same history
    tried += 1;
    {
        let dir = base.join("uring");
        let w = open(&dir, FsyncSchedule::NoFsync);
        fill_to_last_block(&w);
        let (_, _, synced) = traced(&trace, || { w.batch_append_for_topic("z", &refs).unwrap(); });
        let files = wal_files(&dir);
        let missing: Vec<usize> = written_idx.iter().cloned().filter(|i| files.get(*i).map(|f| !synced.contains(f)).unwrap_or(true)).collect();
        if !missing.is_empty() {
            fail("batch_across_two_files_io_uring", "same history on the io_uring path", format!("WAL files (by position in the directory) that the batch writes to but that were not synced before it returned: {:?} of {:?}", missing, written_idx), tried);
            let _ = std::fs::remove_dir_all(&base); return;
        }
    }
    let _ = std::fs::remove_dir_all(&base);
    println!("{{\"found\":false,\"tried\":{}}}", tried);
}
