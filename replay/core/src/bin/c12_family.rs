// Scenario family for C12 (reclamation never removes unconsumed entries): one instance fills and seals the 100 blocks of its
// first WAL file (100 topics: a small entry, then an entry that fills the block), then consumes k of the 100 topics completely.
// While any topic of that file is unconsumed, the file must stay and the unconsumed entries must stay readable - also after
// the reclaimer had time to run and after a restart.
use std::fs;
use std::path::{Path, PathBuf};
use std::thread;
use std::time::Duration;
use walrus_rust::{FsyncSchedule, ReadConsistency, Walrus};

const BLOCK: usize = 10 * 1024 * 1024;
const BIG_LEN: usize = BLOCK - 520;
fn topic(i: usize) -> String { format!("t{:03}", i) }
fn small(i: usize) -> Vec<u8> { format!("small-entry-{:03}", i).into_bytes() }
fn wal_files(root: &Path) -> Vec<PathBuf> {
    let mut v: Vec<PathBuf> = fs::read_dir(root).map(|rd| rd.filter_map(|e| e.ok()).map(|e| e.path()).filter(|p| p.is_file())
        .filter(|p| p.file_name().unwrap().to_string_lossy().parse::<u64>().is_ok()).collect()).unwrap_or_default();
    v.sort();
    v
}
fn open(dir: &Path) -> Walrus {
    Walrus::builder().data_dir(dir.to_path_buf()).consistency(ReadConsistency::StrictlyAtOnce).fsync_schedule(FsyncSchedule::Milliseconds(1)).build().unwrap()
}
fn main() {
    let base = PathBuf::from(std::env::args().nth(1).expect("scratch dir")).join("c12");
    let mut tried = 0;
    for consumed in [0usize, 50, 99] {
        tried += 1;
        let dir = base.join(format!("k{}", consumed));
        let _ = fs::remove_dir_all(&dir);
        fs::create_dir_all(&dir).unwrap();
        let w = open(&dir);
        for i in 0..100 { w.append_for_topic(&topic(i), &small(i)).unwrap(); }
        let big = vec![0xABu8; BIG_LEN];
        for i in 0..100 { w.append_for_topic(&topic(i), &big).unwrap(); }
        // a third entry per topic goes to a block of the second file: the first file's blocks are sealed now
        for i in 0..100 { w.append_for_topic(&topic(i), b"tail").unwrap(); }
        let first = wal_files(&dir)[0].clone();
        for i in 0..consumed { while w.read_next(&topic(i), true).unwrap().is_some() {} }
        // blocks that were consumed are marked again by later reads and by every restart (hydration): marks must not add up
        for i in 0..consumed { let _ = w.read_next(&topic(i), true); let _ = w.batch_read_for_topic(&topic(i), 1 << 20, true, None); }
        drop(w);
        for _ in 0..3 { let w = open(&dir); for i in 0..consumed { let _ = w.read_next(&topic(i), false); } thread::sleep(Duration::from_millis(700)); drop(w); }
        let w = open(&dir);
        thread::sleep(Duration::from_secs(3));
        let alive = first.exists();
        let mut bad: Option<String> = None;
        if !alive { bad = Some(format!("the first WAL file was deleted although {} of its 100 topics are unconsumed", 100 - consumed)); }
        if bad.is_none() {
            drop(w);
            let w2 = open(&dir);
            for i in consumed..100 {
                let got = w2.read_next(&topic(i), true).unwrap().map(|e| e.data);
                if got != Some(small(i)) { bad = Some(format!("after a restart topic {} does not yield its first entry any more (got {:?} bytes)", topic(i), got.map(|d| d.len()))); break; }
            }
        }
        let _ = fs::remove_dir_all(&dir);
        if let Some(f) = bad {
            println!("{{\"found\":true,\"scenario\":\"fill_first_file_consume_{}_of_100\",\"history\":\"100 topics x (small, block-filling, small) appends; {} topics consumed completely and read again; 3 restarts; pause; restart\",\"failure\":\"{}\",\"tried\":{}}}", consumed, consumed, f, tried);
            let _ = fs::remove_dir_all(&base);
            return;
        }
    }
    let _ = fs::remove_dir_all(&base);
    println!("{{\"found\":false,\"tried\":{}}}", tried);
}
