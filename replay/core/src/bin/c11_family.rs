// Scenario family for C11 (opening damaged WAL state never crashes and never returns corrupt data).
// A template directory is produced by the engine itself (several topics, sealed + active blocks, some consumption so that
// the cursor index and the clean-marker file exist).  Each case damages it (byte flips / special values in entry headers,
// zeroed ranges, truncations of the small files, stray and leftover temporary files), then a CHILD process opens the
// directory and reads every topic with read_next and batch reads (peeking).  The case fails when the child panics, is
// killed by a signal, hangs, or returns a payload that was never appended to that topic.
// usage: c11_family <scratch>        |   c11_family child <dir>
use std::collections::BTreeMap;
use std::io::{Read, Seek, SeekFrom, Write};
use std::path::{Path, PathBuf};
use std::process::{Command, Stdio};
use std::time::{Duration, Instant};
use walrus_rust::{FsyncSchedule, ReadConsistency, Walrus};

const TOPICS: [&str; 3] = ["alpha", "beta", "gamma"];
fn payload(t: usize, i: usize) -> Vec<u8> { let n = 40 + 37 * i + 11 * t; (0..n).map(|j| ((t * 53 + i * 17 + j * 7) % 251) as u8).collect() }
fn open(dir: &Path) -> std::io::Result<Walrus> {
    Walrus::builder().data_dir(dir.to_path_buf()).consistency(ReadConsistency::StrictlyAtOnce).fsync_schedule(FsyncSchedule::NoFsync).build()
}
fn hex(b: &[u8]) -> String { b.iter().map(|x| format!("{:02x}", x)).collect() }

fn child(dir: &Path) {
    if std::env::var("WALRUS_REPLAY_MMAP").is_ok() { walrus_rust::disable_fd_backend(); }
    let w = match open(dir) { Ok(w) => w, Err(e) => { println!("OPEN-ERR {}", e); return; } };
    for t in TOPICS.iter() {
        if let Ok(v) = w.batch_read_for_topic(t, 1 << 20, false, None) { for e in v { println!("GOT {} {}", t, hex(&e.data)); } }
        for _ in 0..40 {
            match w.read_next(t, true) { Ok(Some(e)) => println!("GOT {} {}", t, hex(&e.data)), _ => break }
        }
    }
    println!("DONE");
}

fn wal_file(dir: &Path) -> PathBuf {
    let mut v: Vec<PathBuf> = std::fs::read_dir(dir).unwrap().filter_map(|e| e.ok()).map(|e| e.path()).filter(|p| p.is_file())
        .filter(|p| std::fs::metadata(p).map(|m| m.len() > 1 << 20).unwrap_or(false)).collect();
    v.sort();
    v[0].clone()
}
fn patch(p: &Path, off: u64, bytes: &[u8]) -> Vec<u8> {
    let mut f = std::fs::OpenOptions::new().read(true).write(true).open(p).unwrap();
    let mut old = vec![0u8; bytes.len()];
    f.seek(SeekFrom::Start(off)).unwrap(); f.read_exact(&mut old).unwrap();
    f.seek(SeekFrom::Start(off)).unwrap(); f.write_all(bytes).unwrap();
    old
}

fn main() {
    let args: Vec<String> = std::env::args().collect();
    if args[1] == "child" { child(Path::new(&args[2])); return; }
    let base = PathBuf::from(&args[1]).join("c11");
    let _ = std::fs::remove_dir_all(&base);
    std::fs::create_dir_all(&base).unwrap();
    let dir = base.join("data");
    // ---- template
    let mut appended: BTreeMap<&str, Vec<String>> = BTreeMap::new();
    {
        let w = open(&dir).unwrap();
        for i in 0..6 { for (t, name) in TOPICS.iter().enumerate() { let p = payload(t, i); w.append_for_topic(name, &p).unwrap(); appended.entry(name).or_default().push(hex(&p)); } }
        let _ = w.read_next("alpha", true); let _ = w.read_next("alpha", true); let _ = w.read_next("beta", true);
        w.mark_topic_clean("gamma");
        std::thread::sleep(Duration::from_millis(50));
    }
    let wal = wal_file(&dir);
    let small: Vec<PathBuf> = std::fs::read_dir(&dir).unwrap().filter_map(|e| e.ok()).map(|e| e.path()).filter(|p| p.is_file() && *p != wal).collect();
    let backup: Vec<(PathBuf, Vec<u8>)> = small.iter().map(|p| (p.clone(), std::fs::read(p).unwrap())).collect();
    let keep: Vec<PathBuf> = std::fs::read_dir(&dir).unwrap().filter_map(|e| e.ok()).map(|e| e.path()).collect();
    // ---- cases: (description, closure applying the damage, returns undo info)
    enum Dmg { Wal(u64, Vec<u8>), Small(usize, Vec<u8>), Stray(String, Vec<u8>), StrayDir(String) }
    let mut cases: Vec<(String, Dmg)> = Vec::new();
    const BLK: u64 = 10 * 1024 * 1024;
    for blk in 0..2u64 {
        for off in 0..48u64 {
            for v in [0x00u8, 0xff, 0x80, 0x01] { cases.push((format!("WAL block {} header byte {} := {:#04x}", blk, off, v), Dmg::Wal(blk * BLK + off, vec![v]))); }
        }
        for (name, v) in [("255", vec![0xffu8, 0x00]), ("256", vec![0x00, 0x01]), ("65535", vec![0xff, 0xff]), ("254", vec![0xfe, 0x00])] {
            cases.push((format!("WAL block {} header length prefix := {}", blk, name), Dmg::Wal(blk * BLK, v)));
        }
        for off in 2..48u64 {
            cases.push((format!("WAL block {} header bytes {}..{} := 0xff", blk, off, off + 8), Dmg::Wal(blk * BLK + off, vec![0xffu8; 8])));
            cases.push((format!("WAL block {} header bytes {}..{} := ff ff ff ff ff ff ff 7f", blk, off, off + 8), Dmg::Wal(blk * BLK + off, vec![0xff, 0xff, 0xff, 0xff, 0xff, 0xff, 0xff, 0x7f])));
        }
        cases.push((format!("WAL block {}: header bytes 2..256 zeroed, length prefix kept", blk), Dmg::Wal(blk * BLK + 2, vec![0u8; 254])));
        cases.push((format!("WAL block {}: second entry header filled with 0xff", blk), Dmg::Wal(blk * BLK + 256 + 40 + 11 * blk, vec![0xffu8; 256])));
        cases.push((format!("WAL block {}: one payload byte flipped", blk), Dmg::Wal(blk * BLK + 256 + 5, vec![0xa5])));
    }
    for (si, (p, bytes)) in backup.iter().enumerate() {
        let name = p.file_name().unwrap().to_string_lossy().to_string();
        for n in [0usize, 1, 7, bytes.len() / 2, bytes.len().saturating_sub(1)] { if n <= bytes.len() { cases.push((format!("{} truncated to {} bytes", name, n), Dmg::Small(si, bytes[..n].to_vec()))); } }
        for off in 0..bytes.len().min(96) { for v in [0xffu8, 0x00, 0x80] { let mut b = bytes.clone(); b[off] = v; cases.push((format!("{} byte {} := {:#04x}", name, off, v), Dmg::Small(si, b))); } }
        let mut b = bytes.clone(); for x in b.iter_mut() { *x = 0xff; } cases.push((format!("{} all bytes 0xff", name), Dmg::Small(si, b)));
    }
    for (n, b) in [("leftover.tmp", vec![1u8, 2, 3]), ("read_offset_idx_index.db.tmp", vec![0xffu8; 5]), ("topic_clean_index.db.tmp", vec![]), ("1", vec![0x10u8; 300]), ("9999999999999", vec![])] {
        cases.push((format!("stray file {} ({} bytes)", n, b.len()), Dmg::Stray(n.to_string(), b)));
    }
    cases.push(("stray directory inside the data directory".to_string(), Dmg::StrayDir("subdir".to_string())));
    let exe = std::env::current_exe().unwrap();
    let mut tried = 0;
    let limit: usize = std::env::var("C11_LIMIT").ok().and_then(|s| s.parse().ok()).unwrap_or(usize::MAX);
    for (desc, dmg) in cases.into_iter().take(limit) {
        tried += 1;
        let undo: Option<(u64, Vec<u8>)> = match &dmg {
            Dmg::Wal(off, b) => Some((*off, patch(&wal, *off, b))),
            Dmg::Small(si, b) => { std::fs::write(&backup[*si].0, b).unwrap(); None }
            Dmg::Stray(n, b) => { std::fs::write(dir.join(n), b).unwrap(); None }
            Dmg::StrayDir(n) => { std::fs::create_dir_all(dir.join(n)).unwrap(); None }
        };
        let mut ch = Command::new(&exe).args(["child", dir.to_str().unwrap()]).env("WALRUS_QUIET", "1").stdout(Stdio::piped()).stderr(Stdio::piped()).spawn().unwrap();
        let t0 = Instant::now();
        let mut timed_out = false;
        loop {
            if ch.try_wait().unwrap().is_some() { break; }
            if t0.elapsed() > Duration::from_secs(20) { let _ = ch.kill(); timed_out = true; break; }
            std::thread::sleep(Duration::from_millis(5));
        }
        let out = ch.wait_with_output().unwrap();
        let so = String::from_utf8_lossy(&out.stdout).to_string();
        let se = String::from_utf8_lossy(&out.stderr).to_string();
        let mut failure: Option<String> = None;
        if timed_out { failure = Some("the child did not finish within 20 s (hang)".into()); }
        else if !out.status.success() {
            let why = se.lines().find(|l| l.contains("panicked") || l.contains("overflow") || l.contains("alloc")).unwrap_or("").to_string();
            failure = Some(format!("the child died: {:?} {}", out.status, why.chars().take(160).collect::<String>()));
        } else {
            for l in so.lines() { if let Some(r) = l.strip_prefix("GOT ") { let mut it = r.splitn(2, ' '); let t = it.next().unwrap(); let h = it.next().unwrap_or("");
                if !appended.get(t).map(|v| v.iter().any(|x| x == h)).unwrap_or(false) { failure = Some(format!("topic {} returned a payload that was never appended to it ({} bytes)", t, h.len() / 2)); break; } } }
        }
        // ---- undo
        if let Some((off, old)) = undo { patch(&wal, off, &old); }
        for e in std::fs::read_dir(&dir).unwrap().filter_map(|e| e.ok()) { let p = e.path(); if !keep.contains(&p) { if p.is_dir() { let _ = std::fs::remove_dir_all(&p); } else { let _ = std::fs::remove_file(&p); } } }
        for (p, b) in backup.iter() { std::fs::write(p, b).unwrap(); }
        if let Some(f) = failure {
            let esc = |s: &str| s.replace('\\', "\\\\").replace('"', "'").replace('\n', " ");
            println!("{{\"found\":true,\"scenario\":\"{}\",\"history\":\"template: 3 topics x 6 appends, 3 consuming reads, mark_topic_clean, clean shutdown; damage: {}; then open + read every topic in a child process\",\"failure\":\"{}\",\"tried\":{}}}", esc(&desc), esc(&desc), esc(&f), tried);
            if std::env::var("WALRUS_REPLAY_ALL").is_err() { let _ = std::fs::remove_dir_all(&base); return; }
        }
    }
    let _ = std::fs::remove_dir_all(&base);
    println!("{{\"found\":false,\"tried\":{}}}", tried);
}
