// Scenario family for C14: for a grid of namespace keys and data-dir shapes, open a REAL instance through the
// builder and through new_for_key-style constructors, append + read one entry, and check that every file that
// appeared lies in a directory strictly inside the configured data dir (not the data dir itself, not outside).
use std::path::{Path, PathBuf};
use walrus_rust::{FsyncSchedule, ReadConsistency, Walrus};

fn files_under(p: &Path, out: &mut Vec<PathBuf>) {
    if let Ok(rd) = std::fs::read_dir(p) {
        for e in rd.flatten() {
            let q = e.path();
            if q.is_dir() { files_under(&q, out); } else { out.push(q); }
        }
    }
}

fn check(base: &Path, dd: &Path) -> Result<(), String> {
    let mut fs = Vec::new();
    files_under(base, &mut fs);
    for f in fs {
        let rel = match f.strip_prefix(dd) { Ok(r) => r.to_path_buf(), Err(_) => return Err(format!("file {:?} is outside the data dir {:?}", f, dd)) };
        if rel.components().count() < 2 { return Err(format!("file {:?} lies directly in the data dir", f)); }
    }
    Ok(())
}

fn esc(s: &str) -> String {
    let mut o = String::new();
    for c in s.chars() {
        match c {
            '"' => o.push_str("\\\""),
            '\\' => o.push_str("\\\\"),
            c if (c as u32) < 0x20 || (c as u32) > 0x7e => { for u in c.encode_utf16(&mut [0u16; 2]).iter() { o.push_str(&format!("\\u{:04x}", u)); } }
            c => o.push(c),
        }
    }
    o
}

fn main() {
    let base_root = PathBuf::from(std::env::args().nth(1).expect("scratch dir"));
    let keys = ["a", "..", ".", "...", "../", "/..", " .. ", "\0..\0", "é..", "./", "//./ ", "", "_", "__", "a/b", "tenant-a",
                "prod/payments::v1", "_.._", "._.", "..a", "-", "x y", "ns_1"];
    let mut tried = 0;
    for (ki, key) in keys.iter().enumerate() {
        for shape in 0..3 {
            tried += 1;
            let base = base_root.join(format!("c14_{}_{}", ki, shape));
            let _ = std::fs::remove_dir_all(&base);
            // shape 1: the data dir's last component equals the (sanitised) key; shape 2: data dir named like a plain key
            let last = match shape { 0 => "dd".to_string(), 1 => key.chars().map(|c| if c.is_ascii_alphanumeric() || c == '-' || c == '_' || c == '.' { c } else { '_' }).collect::<String>(), _ => "tenant-a".to_string() };
            let last = if last.is_empty() || last.chars().all(|c| c == '.') { "dd".to_string() } else { last };
            let dd = base.join("outer").join("inner").join(last);
            std::fs::create_dir_all(&dd).unwrap();
            let r = std::panic::catch_unwind(|| {
                let w = Walrus::builder().data_dir(dd.clone()).key(key).consistency(ReadConsistency::StrictlyAtOnce)
                    .fsync_schedule(FsyncSchedule::NoFsync).build();
                if let Ok(w) = w {
                    let _ = w.append_for_topic("t", b"payload");
                    let _ = w.read_next("t", true);
                    drop(w);
                }
            });
            if r.is_err() { println!("{{\"found\":true,\"key\":\"{}\",\"failure\":\"panic\",\"tried\":{}}}", esc(key), tried); return; }
            std::thread::sleep(std::time::Duration::from_millis(15));
            if let Err(e) = check(&base, &dd) {
                println!("{{\"found\":true,\"key\":\"{}\",\"data_dir\":\"{}\",\"api\":\"builder().data_dir(..).key(..)\",\"failure\":\"{}\",\"tried\":{}}}", esc(key), esc(&dd.to_string_lossy()), esc(&e), tried);
                return;
            }
            let _ = std::fs::remove_dir_all(&base);
        }
    }
    println!("{{\"found\":false,\"tried\":{}}}", tried);
}
