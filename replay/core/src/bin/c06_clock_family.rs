// Scenario family for C06's "any wall-clock behaviour between runs": every run is its own PROCESS (file names come from a
// process-wide clock guard), with CLOCK_REALTIME pinned by the LD_PRELOAD seam to a chosen instant per run.
// Each run opens the directory, appends a few entries to topic t (and reads some), and shuts down cleanly; the last run reads
// everything.  The consumer must see exactly the appended entries, once, in order.
// usage: c06_clock_family <scratch>   |   c06_clock_family child <dir> <first> <n_append> <n_read>
use std::path::PathBuf;
use std::process::Command;
use walrus_rust::{FsyncSchedule, ReadConsistency, Walrus};

fn open(dir: &PathBuf) -> Walrus {
    Walrus::builder().data_dir(dir.clone()).consistency(ReadConsistency::StrictlyAtOnce).fsync_schedule(FsyncSchedule::NoFsync).build().unwrap()
}
fn main() {
    let a: Vec<String> = std::env::args().collect();
    if a[1] == "child" {
        let dir = PathBuf::from(&a[2]);
        let first: usize = a[3].parse().unwrap(); let n: usize = a[4].parse().unwrap(); let r: usize = a[5].parse().unwrap();
        let w = open(&dir);
        for i in first..first + n { w.append_for_topic("t", format!("entry-{:05}", i).as_bytes()).unwrap(); }
        for _ in 0..r { if let Ok(Some(e)) = w.read_next("t", true) { println!("GOT {}", String::from_utf8_lossy(&e.data)); } else { println!("GOT <none>"); } }
        return;
    }
    let base = PathBuf::from(&a[1]).join("c06clock");
    let exe = std::env::current_exe().unwrap();
    let t0: i64 = 1_790_000_000_000;
    // (name, clock offsets in ms per run)
    let plans: Vec<(&str, Vec<i64>)> = vec![
        ("clock_forward", vec![0, 5_000, 10_000]),
        ("clock_frozen", vec![0, 0, 0]),
        ("clock_steps_back_10s", vec![0, -10_000, -20_000]),
        ("clock_back_then_forward", vec![0, -3_600_000, 1_000]),
    ];
    let mut tried = 0;
    for (name, offs) in plans {
        tried += 1;
        let dir = base.join(name);
        let _ = std::fs::remove_dir_all(&dir);
        std::fs::create_dir_all(&dir).unwrap();
        let mut got: Vec<String> = Vec::new();
        let mut next = 0usize;
        let mut crashed = None;
        for (k, off) in offs.iter().enumerate() {
            let n = 3;
            let out = Command::new(&exe).args(["child", dir.to_str().unwrap(), &next.to_string(), &n.to_string(), "1"])
                .env("WALRUS_FAKE_TIME_MS", (t0 + off).to_string()).env("WALRUS_QUIET", "1").output().unwrap();
            next += n;
            if !out.status.success() { crashed = Some(format!("run {} died: {:?} {}", k + 1, out.status, String::from_utf8_lossy(&out.stderr).lines().last().unwrap_or("").to_string())); break; }
            for l in String::from_utf8_lossy(&out.stdout).lines() { if let Some(x) = l.strip_prefix("GOT ") { got.push(x.to_string()); } }
        }
        if crashed.is_none() {
            let out = Command::new(&exe).args(["child", dir.to_str().unwrap(), &next.to_string(), "0", "40"])
                .env("WALRUS_FAKE_TIME_MS", (t0 + 60_000).to_string()).env("WALRUS_QUIET", "1").output().unwrap();
            for l in String::from_utf8_lossy(&out.stdout).lines() { if let Some(x) = l.strip_prefix("GOT ") { if x != "<none>" { got.push(x.to_string()); } } }
        }
        let want: Vec<String> = (0..next).map(|i| format!("entry-{:05}", i)).collect();
        let _ = std::fs::remove_dir_all(&dir);
        let failure = crashed.or_else(|| if got != want { Some(format!("consumer saw {:?}, expected {:?}", got.iter().map(|s| s.replace("entry-", "")).collect::<Vec<_>>(), want.iter().map(|s| s.replace("entry-", "")).collect::<Vec<_>>())) } else { None });
        if let Some(f) = failure {
            println!("{{\"found\":true,\"scenario\":\"{}\",\"history\":\"4 processes on one directory, wall clock pinned per process (offsets to the first run in ms: see scenario); runs 1-3: open, 3 appends, 1 consuming read, clean shutdown; run 4: read everything\",\"failure\":\"{}\",\"tried\":{}}}", name, f.replace('"', "'").replace('\\', "/"), tried);
            let _ = std::fs::remove_dir_all(&base);
            return;
        }
    }
    let _ = std::fs::remove_dir_all(&base);
    println!("{{\"found\":false,\"tried\":{}}}", tried);
}
