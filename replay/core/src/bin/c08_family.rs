// Scenario family for C08 (a batch interrupted by a crash is recovered entirely or not at all), process-crash model:
// a child process appends one entry, then starts a batch append of N entries and dies (the LD_PRELOAD seam turns its
// (K+1)-th positional write into _exit) - completed writes persist.  The parent then reopens the directory and counts
// the topic's entries: 1 (none of the batch) and 1+N (all of it) are the only admissible outcomes.
// usage: c08_family <scratch>            (parent; needs LD_PRELOAD=libwalrusfault.so)
//        c08_family child <dir> <n> <k>  (child)
use std::path::PathBuf;
use std::process::Command;
use walrus_rust::{FsyncSchedule, ReadConsistency, Walrus};

fn open(dir: &PathBuf) -> Walrus {
    Walrus::builder().data_dir(dir.clone()).consistency(ReadConsistency::StrictlyAtOnce).fsync_schedule(FsyncSchedule::NoFsync).build().unwrap()
}
fn payload(i: usize, size: usize) -> Vec<u8> { (0..size).map(|j| ((i * 37 + j * 11) % 251) as u8).collect() }

fn main() {
    let args: Vec<String> = std::env::args().collect();
    if args[1] == "child" {
        let dir = PathBuf::from(&args[2]);
        let n: usize = args[3].parse().unwrap();
        let k: usize = args[4].parse().unwrap();
        if std::env::var("WALRUS_REPLAY_MMAP").is_ok() { walrus_rust::disable_fd_backend(); }
        let w = open(&dir);
        w.append_for_topic("t", b"before-the-batch").unwrap();
        unsafe { std::env::set_var("WALRUS_CRASH_PWRITE", k.to_string()); }
        let ps: Vec<Vec<u8>> = (0..n).map(|i| payload(i, 1000 + i)).collect();
        let refs: Vec<&[u8]> = ps.iter().map(|v| v.as_slice()).collect();
        let _ = w.batch_append_for_topic("t", &refs);
        unsafe { std::env::remove_var("WALRUS_CRASH_PWRITE"); }
        // not reached when the crash point fired
        std::process::exit(0);
    }
    let base = PathBuf::from(&args[1]).join("c08");
    let exe = std::env::current_exe().unwrap();
    let mut tried = 0;
    for n in [2usize, 4, 9] {
        for k in 0..=n {
            tried += 1;
            let dir = base.join(format!("n{}k{}", n, k));
            let _ = std::fs::remove_dir_all(&dir);
            std::fs::create_dir_all(&dir).unwrap();
            let st = Command::new(&exe).args(["child", dir.to_str().unwrap(), &n.to_string(), &k.to_string()])
                .env("WALRUS_FAULT_URING", "1").env("WALRUS_QUIET", "1").status().unwrap();
            let crashed = st.code() == Some(99);
            let w = open(&dir);
            let mut got = 0usize;
            while let Ok(Some(_)) = w.read_next("t", true) { got += 1; if got > n + 5 { break; } }
            drop(w);
            let _ = std::fs::remove_dir_all(&dir);
            if got != 1 && got != 1 + n {
                println!("{{\"found\":true,\"scenario\":\"crash_in_batch_n{}_after_{}_writes\",\"history\":\"append 1 entry; batch append of {} entries on the portable path (io_uring unavailable); the process dies before its positional write #{} of the batch (crashed={}); reopen\",\"failure\":\"the topic yields {} entries after recovery: the entry before the batch plus {} of the {} batch entries (admissible: 1 or {})\",\"tried\":{}}}", n, k, n, k + 1, crashed, got, got.saturating_sub(1), n, 1 + n, tried);
                let _ = std::fs::remove_dir_all(&base);
                return;
            }
        }
    }
    let _ = std::fs::remove_dir_all(&base);
    println!("{{\"found\":false,\"tried\":{}}}", tried);
}
