// Scenario family for C25: runs the REAL wal_key / parse_wal_key (included by path from the repo under test)
// over a small grid of adversarial topics and segment numbers; prints the first disagreement as JSON.
#[allow(dead_code)]
#[path = "@TYPES@"]
mod types;
use types::{parse_wal_key, wal_key};

fn main() {
    let atoms = ["", "a", "_", "s", "t", "_s_", "t_", "5", "0", "_s", "s_", "é"];
    let mut topics: Vec<String> = Vec::new();
    for a in atoms.iter() { for b in atoms.iter() { for c in atoms.iter() { topics.push(format!("{}{}{}", a, b, c)); } } }
    topics.sort(); topics.dedup();
    let segs: [u64; 9] = [0, 1, 9, 10, 4294967295, 4294967296, 4294967301, u64::MAX - 1, u64::MAX];
    let mut seen: std::collections::HashMap<String, (String, u64)> = std::collections::HashMap::new();
    let mut n = 0u64;
    for t in topics.iter() {
        for &s in segs.iter() {
            n += 1;
            let k = wal_key(t, s);
            match parse_wal_key(&k) {
                Some((tt, ss)) if &tt == t && ss == s => {}
                other => {
                    println!("{{\"found\":true,\"kind\":\"roundtrip\",\"topic\":{:?},\"segment\":{},\"key\":{:?},\"decoded\":{:?},\"tried\":{}}}", t, s, k, format!("{:?}", other), n);
                    return;
                }
            }
            if let Some((t0, s0)) = seen.get(&k) {
                println!("{{\"found\":true,\"kind\":\"collision\",\"topic\":{:?},\"segment\":{},\"other_topic\":{:?},\"other_segment\":{},\"key\":{:?},\"tried\":{}}}", t, s, t0, s0, k, n);
                return;
            }
            seen.insert(k, (t.clone(), s));
        }
    }
    println!("{{\"found\":false,\"tried\":{}}}", n);
}
