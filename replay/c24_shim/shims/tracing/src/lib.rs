//! Minimal `tracing` stand-in: the macros type-check their format arguments and discard them.
#[macro_export]
macro_rules! info {
    ($($arg:tt)*) => {{ let _ = ::std::format_args!($($arg)*); }};
}
#[macro_export]
macro_rules! warn {
    ($($arg:tt)*) => {{ let _ = ::std::format_args!($($arg)*); }};
}
#[macro_export]
macro_rules! error {
    ($($arg:tt)*) => {{ let _ = ::std::format_args!($($arg)*); }};
}
#[macro_export]
macro_rules! debug {
    ($($arg:tt)*) => {{ let _ = ::std::format_args!($($arg)*); }};
}
