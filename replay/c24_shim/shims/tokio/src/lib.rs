//! Minimal in-memory stand-in for the parts of `tokio` that
//! `distributed-walrus/src/client.rs` uses.
//!
//! * `net::TcpStream` is a scripted connection: a fixed input byte string (everything the client
//!   will ever send) and a shared output buffer (everything the server wrote back).
//!   Reading past the end of the input yields `UnexpectedEof`, exactly like a peer that closed.
//! * `net::TcpListener::accept` hands out the connections that were queued with
//!   `net::testing::enqueue` for the bound address and fails once the queue is empty.
//! * No future ever returns `Pending`, so `spawn` and `block_on` simply poll to completion.

use std::future::Future;
use std::pin::pin;
use std::sync::Arc;
use std::task::{Context, Poll, Wake, Waker};

struct NoopWake;
impl Wake for NoopWake {
    fn wake(self: Arc<Self>) {}
}

/// Drive a future to completion on the current thread.
pub fn block_on<F: Future>(fut: F) -> F::Output {
    let waker = Waker::from(Arc::new(NoopWake));
    let mut cx = Context::from_waker(&waker);
    let mut fut = pin!(fut);
    loop {
        if let Poll::Ready(v) = fut.as_mut().poll(&mut cx) {
            return v;
        }
        std::thread::yield_now();
    }
}

pub struct JoinHandle<T>(pub Option<T>);

/// Same bounds as the real `tokio::spawn`; the task is run to completion immediately.
pub fn spawn<F>(fut: F) -> JoinHandle<F::Output>
where
    F: Future + Send + 'static,
    F::Output: Send + 'static,
{
    JoinHandle(Some(block_on(fut)))
}

pub mod io {
    use std::io;

    #[allow(async_fn_in_trait)]
    pub trait AsyncReadExt {
        async fn read_exact(&mut self, buf: &mut [u8]) -> io::Result<usize>;
    }

    #[allow(async_fn_in_trait)]
    pub trait AsyncWriteExt {
        async fn write_all(&mut self, src: &[u8]) -> io::Result<()>;
    }
}

pub mod net {
    use super::io::{AsyncReadExt, AsyncWriteExt};
    use std::collections::{HashMap, VecDeque};
    use std::io;
    use std::net::SocketAddr;
    use std::sync::{Arc, Mutex, OnceLock};

    pub struct TcpStream {
        input: Vec<u8>,
        pos: usize,
        output: Arc<Mutex<Vec<u8>>>,
    }

    impl AsyncReadExt for TcpStream {
        async fn read_exact(&mut self, buf: &mut [u8]) -> io::Result<usize> {
            let remaining = self.input.len() - self.pos;
            if remaining < buf.len() {
                // The peer has nothing more to send: consume what is left and report EOF.
                self.pos = self.input.len();
                return Err(io::Error::new(
                    io::ErrorKind::UnexpectedEof,
                    "early eof",
                ));
            }
            buf.copy_from_slice(&self.input[self.pos..self.pos + buf.len()]);
            self.pos += buf.len();
            Ok(buf.len())
        }
    }

    impl AsyncWriteExt for TcpStream {
        async fn write_all(&mut self, src: &[u8]) -> io::Result<()> {
            self.output.lock().unwrap().extend_from_slice(src);
            Ok(())
        }
    }

    type Queue = VecDeque<TcpStream>;
    fn registry() -> &'static Mutex<HashMap<String, Queue>> {
        static R: OnceLock<Mutex<HashMap<String, Queue>>> = OnceLock::new();
        R.get_or_init(|| Mutex::new(HashMap::new()))
    }

    pub struct TcpListener {
        addr: String,
    }

    impl TcpListener {
        pub async fn bind<A: AsRef<str>>(addr: A) -> io::Result<TcpListener> {
            Ok(TcpListener {
                addr: addr.as_ref().to_string(),
            })
        }

        pub async fn accept(&self) -> io::Result<(TcpStream, SocketAddr)> {
            let next = registry()
                .lock()
                .unwrap()
                .get_mut(&self.addr)
                .and_then(|q| q.pop_front());
            match next {
                Some(s) => Ok((s, "127.0.0.1:1".parse().unwrap())),
                None => Err(io::Error::new(
                    io::ErrorKind::Other,
                    "no more scripted connections",
                )),
            }
        }
    }

    pub mod testing {
        use super::*;

        /// Queue a scripted client connection for `addr`. `input` is every byte the client
        /// sends before closing; the returned buffer collects every byte the server writes.
        pub fn enqueue(addr: &str, input: Vec<u8>) -> Arc<Mutex<Vec<u8>>> {
            let output = Arc::new(Mutex::new(Vec::new()));
            registry()
                .lock()
                .unwrap()
                .entry(addr.to_string())
                .or_default()
                .push_back(TcpStream {
                    input,
                    pos: 0,
                    output: output.clone(),
                });
            output
        }
    }
}
