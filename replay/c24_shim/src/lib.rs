//! Demonstration harness for property C24: pulls in the REAL
//! `distributed-walrus/src/client.rs` and runs it over scripted in-memory connections.
//!
//! This crate is expected to live at `<repo>/distributed-walrus/c24-demo/`.

pub mod controller;

#[path = "@CLIENT@"]
pub mod client;

use std::sync::atomic::{AtomicUsize, Ordering};
use std::sync::Arc;

/// Encode one client frame: u32 little-endian length + body.
pub fn frame(body: &[u8]) -> Vec<u8> {
    let mut v = (body.len() as u32).to_le_bytes().to_vec();
    v.extend_from_slice(body);
    v
}

/// Feed `input` (everything one client sends on one connection, then EOF) to the real
/// listener/connection handler and return every byte the server wrote back.
pub fn run_session(controller: Arc<controller::NodeController>, input: Vec<u8>) -> Vec<u8> {
    static NEXT: AtomicUsize = AtomicUsize::new(0);
    let addr = format!("mem:{}", NEXT.fetch_add(1, Ordering::SeqCst));
    let out = tokio::net::testing::enqueue(&addr, input);
    // Serves the single queued connection to EOF, then `accept` fails and the listener returns.
    let _ = tokio::block_on(client::start_client_listener(controller, addr));
    let bytes = out.lock().unwrap().clone();
    bytes
}

/// What a well-behaved client sees: split the server's byte stream into length-prefixed
/// responses. Err if the stream does not split exactly into frames.
pub fn parse_responses(mut bytes: &[u8]) -> Result<Vec<Vec<u8>>, String> {
    let mut out = Vec::new();
    while !bytes.is_empty() {
        if bytes.len() < 4 {
            return Err(format!("{} stray trailing bytes (truncated header)", bytes.len()));
        }
        let len = u32::from_le_bytes([bytes[0], bytes[1], bytes[2], bytes[3]]) as usize;
        bytes = &bytes[4..];
        if bytes.len() < len {
            return Err(format!(
                "response header announces {} bytes but only {} follow",
                len,
                bytes.len()
            ));
        }
        out.push(bytes[..len].to_vec());
        bytes = &bytes[len..];
    }
    Ok(out)
}

pub fn as_strings(resps: &[Vec<u8>]) -> Vec<String> {
    resps
        .iter()
        .map(|r| String::from_utf8_lossy(r).into_owned())
        .collect()
}
