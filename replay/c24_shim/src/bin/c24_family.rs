// Scenario family for C24: byte streams made of valid and malformed frames are fed to the REAL handle_connection
// (client.rs by path, in-memory tokio shim).  Oracle = the property: the stream splits into frames
// [4-byte LE length + exactly that many bytes]; every frame gets exactly one response, in order; the payload of a
// PUT comes back byte-identical from GET.
use c24_shim::{as_strings, controller::NodeController, frame, parse_responses, run_session};
use std::sync::Arc;

#[derive(Clone)]
enum F { Reg, Put(&'static str), Get, Zero, Over(usize), BadUtf8, Unknown, Incomplete }

fn bytes_of(f: &F) -> Vec<u8> {
    match f {
        F::Reg => frame(b"REGISTER t"),
        F::Put(p) => frame(format!("PUT t {}", p).as_bytes()),
        F::Get => frame(b"GET t"),
        F::Zero => 0u32.to_le_bytes().to_vec(),
        F::Over(n) => { let mut v = (*n as u32).to_le_bytes().to_vec(); v.extend(std::iter::repeat(b'x').take(*n)); v }
        F::BadUtf8 => frame(&[0xff, 0xfe, b'a']),
        F::Unknown => frame(b"FROB t"),
        F::Incomplete => frame(b"PUT t"),
    }
}
fn name(f: &F) -> String { match f { F::Reg => "REGISTER".into(), F::Put(p) => format!("PUT({})", p), F::Get => "GET".into(), F::Zero => "ZERO_LEN".into(),
    F::Over(n) => format!("OVERSIZED({} byte body)", n), F::BadUtf8 => "BAD_UTF8".into(), F::Unknown => "UNKNOWN_CMD".into(), F::Incomplete => "PUT_WITHOUT_PAYLOAD".into() } }

fn check(seq: &[F]) -> Result<(), String> {
    let ctl = Arc::new(NodeController::new());
    let mut input = Vec::new();
    for f in seq { input.extend(bytes_of(f)); }
    let out = run_session(ctl, input);
    let resps = as_strings(&parse_responses(&out).map_err(|e| format!("server output is not well framed: {}", e))?);
    if resps.len() != seq.len() { return Err(format!("{} frames sent, {} responses received: {:?}", seq.len(), resps.len(), &resps[..resps.len().min(6)])); }
    let mut queue: std::collections::VecDeque<&str> = Default::default();
    let mut registered = false;
    for (f, r) in seq.iter().zip(resps.iter()) {
        let ok = match f {
            F::Reg => { registered = true; r == "OK" }
            F::Put(p) => { if registered { queue.push_back(p); r == "OK" } else { r.starts_with("ERR") || r == "OK" } }
            F::Get => match queue.pop_front() { Some(p) => r == &format!("OK {}", p), None => r == "EMPTY" || r.starts_with("ERR") },
            _ => r.starts_with("ERR"),
        };
        if !ok { return Err(format!("response to {} was {:?}", name(&f.clone()), &r[..r.len().min(60)])); }
    }
    Ok(())
}

fn main() {
    let atoms = vec![F::Put("héllo wörld"), F::Put("a  b"), F::Get, F::Zero, F::Over(65537), F::Over(70000), F::BadUtf8, F::Unknown, F::Incomplete, F::Put("x")];
    let mut tried = 0;
    let n = atoms.len();
    for len in 1..=3usize {
        let mut idx = vec![0usize; len];
        loop {
            let mut seq = vec![F::Reg];
            seq.extend(idx.iter().map(|&i| atoms[i].clone()));
            seq.push(F::Get);
            tried += 1;
            if let Err(e) = check(&seq) {
                let names: Vec<String> = seq.iter().map(name).collect();
                println!("{{\"found\":true,\"frames\":{:?},\"failure\":{:?},\"tried\":{}}}", names.join(" "), e, tried);
                return;
            }
            let mut k = len; let mut done = false;
            loop { if k == 0 { done = true; break; } k -= 1; idx[k] += 1; if idx[k] < n { break; } idx[k] = 0; }
            if done { break; }
        }
    }
    println!("{{\"found\":false,\"tried\":{}}}", tried);
}
