//! Stub of `crate::controller::NodeController` with just the methods client.rs calls.
//! Topics are in-memory FIFO queues; a shared read cursor per topic (like the real
//! `read_one_for_topic_shared`) hands entries out in append order.
use anyhow::{anyhow, Result};
use std::collections::HashMap;
use std::sync::Mutex;

#[derive(Default)]
struct Topic {
    entries: Vec<Vec<u8>>,
    cursor: usize,
}

#[derive(Default)]
pub struct NodeController {
    topics: Mutex<HashMap<String, Topic>>,
}

impl NodeController {
    pub fn new() -> Self {
        Self::default()
    }

    pub async fn ensure_topic(&self, topic: &str) -> Result<()> {
        self.topics.lock().unwrap().entry(topic.to_string()).or_default();
        Ok(())
    }

    pub async fn append_for_topic(&self, topic: &str, data: Vec<u8>) -> Result<()> {
        let mut g = self.topics.lock().unwrap();
        let Some(t) = g.get_mut(topic) else {
            return Err(anyhow!("unknown topic {}", topic));
        };
        t.entries.push(data);
        Ok(())
    }

    pub async fn read_one_for_topic_shared(&self, topic: &str) -> Result<Option<Vec<u8>>> {
        let mut g = self.topics.lock().unwrap();
        let Some(t) = g.get_mut(topic) else {
            return Err(anyhow!("unknown topic {}", topic));
        };
        if t.cursor < t.entries.len() {
            t.cursor += 1;
            Ok(Some(t.entries[t.cursor - 1].clone()))
        } else {
            Ok(None)
        }
    }

    pub fn topic_snapshot(&self, topic: &str) -> Result<String> {
        let g = self.topics.lock().unwrap();
        let Some(t) = g.get(topic) else {
            return Err(anyhow!("unknown topic {}", topic));
        };
        Ok(format!("{{\"entries\":{},\"cursor\":{}}}", t.entries.len(), t.cursor))
    }

    pub fn get_metrics(&self) -> Result<String> {
        Ok("{}".to_string())
    }
}
