#![allow(dead_code, unused_imports, unused_variables, unexpected_cfgs)]
pub mod error {
    // stand-in for octopii/src/error.rs (its other variants need quinn/bincode, absent offline)
    #[derive(Debug)]
    pub enum OctopiiError { Io(std::io::Error), Wal(String) }
    impl std::fmt::Display for OctopiiError { fn fmt(&self, f: &mut std::fmt::Formatter<'_>) -> std::fmt::Result { write!(f, "{:?}", self) } }
    impl std::error::Error for OctopiiError {}
    impl From<std::io::Error> for OctopiiError { fn from(e: std::io::Error) -> Self { OctopiiError::Io(e) } }
    pub type Result<T> = std::result::Result<T, OctopiiError>;
}
#[path = "@WALMOD@"]
pub mod wal;

/// runs a future whose awaits are always ready (the tokio stand-in never yields)
pub fn block_on<F: std::future::Future>(f: F) -> F::Output {
    use std::task::{Context, Poll, RawWaker, RawWakerVTable, Waker};
    fn noop(_: *const ()) {}
    fn clone(_: *const ()) -> RawWaker { RawWaker::new(std::ptr::null(), &VT) }
    static VT: RawWakerVTable = RawWakerVTable::new(clone, noop, noop, noop);
    let waker = unsafe { Waker::from_raw(RawWaker::new(std::ptr::null(), &VT)) };
    let mut cx = Context::from_waker(&waker);
    let mut f = Box::pin(f);
    loop { if let Poll::Ready(v) = f.as_mut().poll(&mut cx) { return v; } }
}
