// Scenario family for C21 (the Raft log store's WAL survives any number of restarts): the REAL WriteAheadLog of
// octopii/src/wal/mod.rs over the engine copy vendored with it.  History: append n records, then k times (drop, reopen,
// read_all) - exactly what WalLogStore::new / recover_from_wal do at every start.  Every reopened store must see all n records.
use bytes::Bytes;
use c21_shim::{block_on, wal::WriteAheadLog};
use std::path::PathBuf;
use std::time::Duration;

fn main() {
    let base = PathBuf::from(std::env::args().nth(1).expect("scratch dir")).join("c21");
    let _ = std::fs::remove_dir_all(&base);
    let mut tried = 0;
    let all = std::env::var("WALRUS_REPLAY_ALL").is_ok();
    let mut any = false;
    // sizes of the records of one history: small ones, and one history with a record above 1 MiB (the reader's byte budget
    // must never make a whole record unreadable)
    let histories: Vec<(&str, Vec<usize>)> = vec![("1_small", vec![20]), ("3_small", vec![20, 21, 22]), ("20_small", (0..20).map(|i| 20 + i % 7).collect()),
                                                   ("small_large_small", vec![5, 1_572_864, 4]), ("four_900KiB", vec![921_600; 4])];
    for (hname, sizes) in histories.iter() {
        for restarts in [1usize, 2, 3] {
            tried += 1;
            let n = sizes.len();
            let dir = base.join(format!("{}_r{}", hname, restarts));
            std::fs::create_dir_all(&dir).unwrap();
            let path = dir.join("raft_log.wal");
            let recs: Vec<Vec<u8>> = sizes.iter().enumerate().map(|(i, sz)| (0..*sz).map(|j| ((i * 31 + j * 7) % 251) as u8).collect()).collect();
            {
                let wal = block_on(WriteAheadLog::new(path.clone(), 0, Duration::from_millis(0))).expect("open");
                for r in &recs { block_on(wal.append(Bytes::from(r.clone()))).expect("append"); }
            }
            let mut bad: Option<(usize, String)> = None;
            for k in 1..=restarts {
                let wal = block_on(WriteAheadLog::new(path.clone(), 0, Duration::from_millis(0))).expect("reopen");
                let got = block_on(wal.read_all()).expect("read_all");
                let same = got.len() == recs.len() && got.iter().zip(recs.iter()).all(|(a, b)| a.as_ref() == b.as_slice());
                if !same { bad = Some((k, format!("restart #{}: read_all returned {} of the {} acknowledged records", k, got.len(), recs.len()))); break; }
            }
            let _ = std::fs::remove_dir_all(&dir);
            if let Some((k, f)) = bad {
                any = true;
                // the scenario name says at which restart the records were first missing: the listed known finding is "second or later"
                let when = if k == 1 { "first_restart" } else { "later_restart" };
                println!("{{\"found\":true,\"scenario\":\"{}_{}_of_{}\",\"history\":\"WriteAheadLog::new; {} x append (each returned Ok; sizes {:?}); then {} x (drop, WriteAheadLog::new, read_all) as WalLogStore::new does at every start\",\"failure\":\"{}\",\"tried\":{}}}", when, hname, restarts, n, &sizes[..sizes.len().min(4)], restarts, f, tried);
                if !all { let _ = std::fs::remove_dir_all(&base); return; }
            }
        }
    }
    if any { let _ = std::fs::remove_dir_all(&base); return; }
    let _ = std::fs::remove_dir_all(&base);
    println!("{{\"found\":false,\"tried\":{}}}", tried);
}
