// Scenario family for C21 (the Raft log store's WAL survives any number of restarts): the REAL WriteAheadLog of
// octopii/src/wal/mod.rs over the engine copy vendored with it.  History: append n records, then k times (drop, reopen,
// read_all) - exactly what WalLogStore::new / recover_from_wal do at every start.  Every reopened store must see all n records.
use bytes::Bytes;
use c21_shim::{block_on, wal::WriteAheadLog};
use std::path::PathBuf;
use std::time::Duration;

fn main() {
    let base = PathBuf::from(std::env::args().nth(1).expect("scratch dir")).join("c21");
    let _ = std::fs::remove_dir_all(&base);
    let mut tried = 0;
    for n in [1usize, 3, 20] {
        for restarts in [1usize, 2, 3] {
            tried += 1;
            let dir = base.join(format!("n{}r{}", n, restarts));
            std::fs::create_dir_all(&dir).unwrap();
            let path = dir.join("raft_log.wal");
            let recs: Vec<Vec<u8>> = (0..n).map(|i| format!("record-{:04}-{}", i, "x".repeat(i % 7)).into_bytes()).collect();
            {
                let wal = block_on(WriteAheadLog::new(path.clone(), 0, Duration::from_millis(0))).expect("open");
                for r in &recs { block_on(wal.append(Bytes::from(r.clone()))).expect("append"); }
            }
            let mut bad: Option<String> = None;
            for k in 1..=restarts {
                let wal = block_on(WriteAheadLog::new(path.clone(), 0, Duration::from_millis(0))).expect("reopen");
                let got = block_on(wal.read_all()).expect("read_all");
                let same = got.len() == recs.len() && got.iter().zip(recs.iter()).all(|(a, b)| a.as_ref() == b.as_slice());
                if !same { bad = Some(format!("restart #{}: read_all returned {} of the {} acknowledged records", k, got.len(), recs.len())); break; }
            }
            let _ = std::fs::remove_dir_all(&dir);
            if let Some(f) = bad {
                println!("{{\"found\":true,\"scenario\":\"append_{}_then_{}_restarts\",\"history\":\"WriteAheadLog::new; {} x append (each returned Ok); then {} x (drop, WriteAheadLog::new, read_all) as WalLogStore::new does at every start\",\"failure\":\"{}\",\"tried\":{}}}", n, restarts, n, restarts, f, tried);
                let _ = std::fs::remove_dir_all(&base);
                return;
            }
        }
    }
    let _ = std::fs::remove_dir_all(&base);
    println!("{{\"found\":false,\"tried\":{}}}", tried);
}
