// Minimal stand-in for the parts of tokio that octopii/src/wal/mod.rs uses (tokio itself is not available offline):
// block_in_place runs the closure, sleep blocks the thread; futures built from them are always ready.
pub mod time {
    pub use std::time::Duration;
    pub async fn sleep(d: Duration) { std::thread::sleep(d) }
}
pub mod task {
    pub fn block_in_place<F: FnOnce() -> R, R>(f: F) -> R { f() }
}
