/* LD_PRELOAD fault-injection seam for native replay (no change to /repo): selected libc calls fail while an
 * environment variable is set.  The replay runner toggles the variables between operations.
 *   (value 1 = always, value s<K> = after K successful calls)
 *   WALRUS_FAULT_FSYNC=1   fsync / fdatasync fail with EIO
 *   WALRUS_FAULT_CREATE=1  open / openat / creat with O_CREAT fail with EACCES
 *   WALRUS_FAULT_RENAME=1  rename / renameat fail with EIO                                                     */
#define _GNU_SOURCE
#include <sys/syscall.h>
#include <dlfcn.h>
#include <errno.h>
#include <fcntl.h>
#include <stdarg.h>
#include <stdlib.h>
#include <sys/types.h>
#include <stdio.h>
#include <unistd.h>
/* WALRUS_TRACE_FILE=<path>: append one line per pwrite ("W <file> <off> <len>") and per fsync/fdatasync ("F <file>") */
static void trace_fd(const char *tag, int fd, long long off, long long len) {
    const char *t = getenv("WALRUS_TRACE_FILE");
    if (!t) return;
    char link[64], path[512];
    snprintf(link, sizeof link, "/proc/self/fd/%d", fd);
    ssize_t n = readlink(link, path, sizeof path - 1);
    if (n <= 0) return;
    path[n] = 0;
    char line[700];
    int m = snprintf(line, sizeof line, "%s %s %lld %lld\n", tag, path, off, len);
    long tfd = syscall(SYS_open, t, O_WRONLY | O_CREAT | O_APPEND, 0644);
    if (tfd >= 0) { (void)!syscall(SYS_write, tfd, line, (size_t)m); syscall(SYS_close, tfd); }
}

#include <string.h>
/* value "1": every call fails; value "s<K>": the first K calls after the variable got this value succeed, later ones fail */
static int on(const char *name) {
    static char last[3][32]; static long seen[3];
    const char *v = getenv(name);
    int slot = name[13] == 'F' ? 0 : name[13] == 'C' ? 1 : 2;   /* WALRUS_FAULT_<F|C|R>... */
    if (!v) { last[slot][0] = 0; return 0; }
    if (v[0] == '1') return 1;
    if (v[0] != 's') return 0;
    if (strncmp(last[slot], v, 31) != 0) { strncpy(last[slot], v, 31); seen[slot] = 0; }
    return seen[slot]++ >= atol(v + 1);
}

int fsync(int fd) {
    static int (*real)(int) = 0;
    if (!real) real = dlsym(RTLD_NEXT, "fsync");
    if (on("WALRUS_FAULT_FSYNC")) { errno = EIO; return -1; }
    trace_fd("F", fd, 0, 0);
    return real(fd);
}
int fdatasync(int fd) {
    static int (*real)(int) = 0;
    if (!real) real = dlsym(RTLD_NEXT, "fdatasync");
    if (on("WALRUS_FAULT_FSYNC")) { errno = EIO; return -1; }
    trace_fd("F", fd, 0, 0);
    return real(fd);
}
int open(const char *path, int flags, ...) {
    static int (*real)(const char *, int, ...) = 0;
    if (!real) real = dlsym(RTLD_NEXT, "open");
    mode_t mode = 0;
    if (flags & (O_CREAT | O_TMPFILE)) { va_list ap; va_start(ap, flags); mode = va_arg(ap, mode_t); va_end(ap); }
    if ((flags & O_CREAT) && on("WALRUS_FAULT_CREATE")) { errno = EACCES; return -1; }
    return real(path, flags, mode);
}
int open64(const char *path, int flags, ...) {
    static int (*real)(const char *, int, ...) = 0;
    if (!real) real = dlsym(RTLD_NEXT, "open64");
    mode_t mode = 0;
    if (flags & (O_CREAT | O_TMPFILE)) { va_list ap; va_start(ap, flags); mode = va_arg(ap, mode_t); va_end(ap); }
    if ((flags & O_CREAT) && on("WALRUS_FAULT_CREATE")) { errno = EACCES; return -1; }
    return real(path, flags, mode);
}
int openat(int dirfd, const char *path, int flags, ...) {
    static int (*real)(int, const char *, int, ...) = 0;
    if (!real) real = dlsym(RTLD_NEXT, "openat");
    mode_t mode = 0;
    if (flags & (O_CREAT | O_TMPFILE)) { va_list ap; va_start(ap, flags); mode = va_arg(ap, mode_t); va_end(ap); }
    if ((flags & O_CREAT) && on("WALRUS_FAULT_CREATE")) { errno = EACCES; return -1; }
    return real(dirfd, path, flags, mode);
}
int openat64(int dirfd, const char *path, int flags, ...) {
    static int (*real)(int, const char *, int, ...) = 0;
    if (!real) real = dlsym(RTLD_NEXT, "openat64");
    mode_t mode = 0;
    if (flags & (O_CREAT | O_TMPFILE)) { va_list ap; va_start(ap, flags); mode = va_arg(ap, mode_t); va_end(ap); }
    if ((flags & O_CREAT) && on("WALRUS_FAULT_CREATE")) { errno = EACCES; return -1; }
    return real(dirfd, path, flags, mode);
}
int rename(const char *a, const char *b) {
    static int (*real)(const char *, const char *) = 0;
    if (!real) real = dlsym(RTLD_NEXT, "rename");
    if (on("WALRUS_FAULT_RENAME")) { errno = EIO; return -1; }
    return real(a, b);
}
int msync(void *addr, size_t len, int flags) {
    static int (*real)(void *, size_t, int) = 0;
    if (!real) real = dlsym(RTLD_NEXT, "msync");
    if (on("WALRUS_FAULT_FSYNC")) { errno = EIO; return -1; }
    return real(addr, len, flags);
}

/* crash points (process-crash model: completed syscalls persist):
 *   WALRUS_CRASH_PWRITE=<K>  the process _exit(99)s instead of performing its (K+1)-th pwrite/pwrite64 after the variable was set
 *   WALRUS_FAULT_URING=1     io_uring_setup fails with ENOSYS (the engine then takes its portable path)                         */
#include <unistd.h>
#include <sys/syscall.h>
static void crash_point(void) {
    static char last[32]; static long seen;
    const char *v = getenv("WALRUS_CRASH_PWRITE");
    if (!v) { last[0] = 0; return; }
    if (strncmp(last, v, 31) != 0) { strncpy(last, v, 31); seen = 0; }
    if (seen++ >= atol(v)) _exit(99);
}
ssize_t pwrite(int fd, const void *buf, size_t n, off_t off) {
    static ssize_t (*real)(int, const void *, size_t, off_t) = 0;
    if (!real) real = dlsym(RTLD_NEXT, "pwrite");
    crash_point();
    trace_fd("W", fd, (long long)off, (long long)n);
    return real(fd, buf, n, off);
}
ssize_t pwrite64(int fd, const void *buf, size_t n, off64_t off) {
    static ssize_t (*real)(int, const void *, size_t, off64_t) = 0;
    if (!real) real = dlsym(RTLD_NEXT, "pwrite64");
    crash_point();
    trace_fd("W", fd, (long long)off, (long long)n);
    return real(fd, buf, n, off);
}
long syscall(long nr, ...) {
    static long (*real)(long, ...) = 0;
    if (!real) real = dlsym(RTLD_NEXT, "syscall");
    va_list ap; va_start(ap, nr);
    long a = va_arg(ap, long), b = va_arg(ap, long), c = va_arg(ap, long), d = va_arg(ap, long), e = va_arg(ap, long), f = va_arg(ap, long);
    va_end(ap);
    if (nr == 425 /* io_uring_setup */) { const char *v = getenv("WALRUS_FAULT_URING"); if (v && v[0] == '1') { errno = ENOSYS; return -1; } }
    return real(nr, a, b, c, d, e, f);
}

/* wall clock: WALRUS_FAKE_TIME_MS=<ms since epoch> pins CLOCK_REALTIME (SystemTime::now) to that instant */
#include <time.h>
int clock_gettime(clockid_t id, struct timespec *ts) {
    static int (*real)(clockid_t, struct timespec *) = 0;
    if (!real) real = dlsym(RTLD_NEXT, "clock_gettime");
    const char *v = getenv("WALRUS_FAKE_TIME_MS");
    if (v && id == CLOCK_REALTIME) { long long ms = atoll(v); ts->tv_sec = ms / 1000; ts->tv_nsec = (ms % 1000) * 1000000L; return 0; }
    return real(id, ts);
}
