//! Minimal offline stand-in for the one `octopii` item used by
//! distributed-walrus/src/metadata.rs.
pub trait StateMachineTrait: Send + Sync {
    fn apply(&self, command: &[u8]) -> Result<bytes::Bytes, String>;
    fn snapshot(&self) -> Vec<u8>;
    fn restore(&self, data: &[u8]) -> Result<(), String>;
}
