//! Minimal offline stand-in for the `bincode` 1.x API surface used by
//! distributed-walrus/src/metadata.rs, implemented over serde_json.
use serde::{Deserialize, Serialize};

pub type Error = serde_json::Error;
pub type Result<T> = std::result::Result<T, Error>;

pub fn serialize<T: ?Sized + Serialize>(value: &T) -> Result<Vec<u8>> {
    serde_json::to_vec(value)
}

pub fn deserialize<'a, T: Deserialize<'a>>(bytes: &'a [u8]) -> Result<T> {
    serde_json::from_slice(bytes)
}
