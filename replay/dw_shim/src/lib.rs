//! Demonstration harness for property C18 ("cluster metadata keeps an
//! immutable, contiguous segment history").
//!
//! The module below is the REAL distributed-walrus metadata state machine
//! source file, compiled against two tiny offline shims (`bincode`, `octopii`).
#[path = "@METADATA@"]
pub mod metadata;

use metadata::{Metadata, MetadataCmd, NodeId};
use octopii::StateMachineTrait;
use std::collections::{BTreeSet, HashMap};

/// Encode a command exactly the way the real callers do and apply it.
pub fn apply(meta: &Metadata, cmd: MetadataCmd) -> Result<Vec<u8>, String> {
    let bytes = bincode::serialize(&cmd).expect("encode cmd");
    meta.apply(&bytes).map(|b| b.to_vec())
}

pub fn create(meta: &Metadata, name: &str, leader: NodeId) -> Result<Vec<u8>, String> {
    apply(
        meta,
        MetadataCmd::CreateTopic {
            name: name.to_string(),
            initial_leader: leader,
        },
    )
}

pub fn rollover(meta: &Metadata, name: &str, leader: NodeId, count: u64) -> Result<Vec<u8>, String> {
    apply(
        meta,
        MetadataCmd::RolloverTopic {
            name: name.to_string(),
            new_leader: leader,
            sealed_segment_entry_count: count,
        },
    )
}

pub fn upsert(meta: &Metadata, node: NodeId, addr: &str) -> Result<Vec<u8>, String> {
    apply(
        meta,
        MetadataCmd::UpsertNode {
            node_id: node,
            addr: addr.to_string(),
        },
    )
}

/// Remembers (entry count, leader) of every sealed segment the first time it
/// is observed sealed, so later states can be checked for immutability.
#[derive(Default)]
pub struct History {
    sealed: HashMap<(String, u64), (u64, NodeId)>,
}

/// Check every clause of the property statement for the given topics.
pub fn check(meta: &Metadata, topics: &[&str], hist: &mut History) -> Result<(), String> {
    for &name in topics {
        let Some(t) = meta.get_topic_state(name) else {
            continue;
        };
        if t.current_segment < 1 {
            return Err(format!("{name}: current_segment {} < 1", t.current_segment));
        }
        let want_all: BTreeSet<u64> = (1..=t.current_segment).collect();
        let want_sealed: BTreeSet<u64> = (1..t.current_segment).collect();
        let have_leaders: BTreeSet<u64> = t.segment_leaders.keys().copied().collect();
        let have_sealed: BTreeSet<u64> = t.sealed_segments.keys().copied().collect();
        if have_leaders != want_all {
            return Err(format!(
                "{name}: segments with a leader {:?} != 1..={}",
                have_leaders, t.current_segment
            ));
        }
        if have_sealed != want_sealed {
            return Err(format!(
                "{name}: sealed segments {:?} != 1..{}",
                have_sealed, t.current_segment
            ));
        }
        let open_leader = t.segment_leaders[&t.current_segment];
        if open_leader != t.leader_node {
            return Err(format!(
                "{name}: open segment {} is led by {} but topic leader is {}",
                t.current_segment, open_leader, t.leader_node
            ));
        }
        let sum: u128 = t.sealed_segments.values().map(|v| *v as u128).sum();
        if sum != t.last_sealed_entry_offset as u128 {
            return Err(format!(
                "{name}: last_sealed_entry_offset {} != sum of sealed counts {}",
                t.last_sealed_entry_offset, sum
            ));
        }
        for seg in 1..t.current_segment {
            let now = (t.sealed_segments[&seg], t.segment_leaders[&seg]);
            let first = *hist.sealed.entry((name.to_string(), seg)).or_insert(now);
            if first != now {
                return Err(format!(
                    "{name}: sealed segment {seg} changed from (count,leader)={:?} to {:?}",
                    first, now
                ));
            }
        }
    }
    Ok(())
}
