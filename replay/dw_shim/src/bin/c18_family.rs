// Scenario family for C18: every command sequence up to length 4 over 2 topics / 3 nodes (+ zero / huge counts,
// garbage bytes) is applied to the REAL Metadata state machine; after every command every clause of the
// property is checked.  Prints the first failing history as JSON.
use dw_shim::metadata::{Metadata, MetadataCmd};
use dw_shim::*;
use octopii::StateMachineTrait;

#[derive(Clone, Debug)]
enum Cmd { Create(&'static str, u64), Roll(&'static str, u64, u64), Upsert(u64), Garbage }

fn run(seq: &[Cmd]) -> Result<(), String> {
    let meta = Metadata::new();
    let mut hist = History::default();
    for (i, c) in seq.iter().enumerate() {
        let r = std::panic::catch_unwind(std::panic::AssertUnwindSafe(|| match c {
            Cmd::Create(t, l) => { let _ = create(&meta, t, *l); }
            Cmd::Roll(t, l, n) => { let _ = rollover(&meta, t, *l, *n); }
            Cmd::Upsert(n) => { let _ = upsert(&meta, *n, "addr"); }
            Cmd::Garbage => { let _ = meta.apply(b"\xff\x00garbage"); }
        }));
        if r.is_err() { return Err(format!("panic while applying command #{}", i)); }
        check(&meta, &["a", "b"], &mut hist).map_err(|e| format!("after command #{}: {}", i, e))?;
    }
    Ok(())
}

fn main() {
    std::panic::set_hook(Box::new(|_| {}));
    let mut cmds = vec![Cmd::Garbage, Cmd::Upsert(1), Cmd::Upsert(3)];
    for t in ["a", "b"] { for l in [1u64, 2, 3] { cmds.push(Cmd::Create(t, l)); } }
    for t in ["a", "b"] { for l in [1u64, 2, 3] { for n in [0u64, 5, 1u64 << 63] { cmds.push(Cmd::Roll(t, l, n)); } } }
    let mut tried = 0u64;
    let n = cmds.len();
    for len in 1..=4usize {
        let mut idx = vec![0usize; len];
        loop {
            let seq: Vec<Cmd> = idx.iter().map(|&i| cmds[i].clone()).collect();
            tried += 1;
            if let Err(e) = run(&seq) {
                println!("{{\"found\":true,\"history\":{:?},\"failure\":{:?},\"tried\":{}}}", format!("{:?}", seq), e, tried);
                return;
            }
            let mut k = len;
            loop { if k == 0 { break; } k -= 1; idx[k] += 1; if idx[k] < n { break; } idx[k] = 0; if k == 0 { k = usize::MAX; break; } }
            if k == usize::MAX { break; }
        }
    }
    println!("{{\"found\":false,\"tried\":{}}}", tried);
}
